//! Reproduction on the real runtime (no simulator) of the defect repaired by /repo 62d96bf.
//! Place as /repo/tests/ack_callback_reentrancy.rs and run
//!   cargo test --offline --test ack_callback_reentrancy
//! It passes on 62d96bf and later; with 62d96bf reverted the connection task panics with
//! "RefCell already mutably borrowed" inside the callback when the first PUBACK arrives, and the test fails.
//!
//! The application is a pipeline of non-blocking QoS 1 sends: the publish-ack callback looks at its sink's
//! credit and sends the next message from inside the callback - the use `publish_ack_cb` exists for.
use std::{cell::RefCell, rc::Rc};

use ntex::service::{ServiceFactory, cfg::SharedCfg};
use ntex::time::{Millis, Seconds, sleep};
use ntex::util::{ByteString, Bytes, Ready};
use ntex::server;

use ntex_mqtt::v3::{Handshake, HandshakeAck, MqttServer, client};

struct St;

async fn handshake(packet: Handshake) -> Result<HandshakeAck<St>, ()> {
    Ok(packet.ack(St, false).idle_timeout(Seconds(16)))
}

#[ntex::test]
async fn ack_callback_may_use_its_sink() -> std::io::Result<()> {
    let srv = server::test_server(async move || {
        MqttServer::new(handshake).publish(|_| Ready::Ok(()))
    });

    let client = client::MqttConnector::new()
        .pipeline(SharedCfg::default())
        .await
        .unwrap()
        .call(client::Connect::new(srv.addr()).client_id("user"))
        .await
        .unwrap();

    let sink = client.sink();
    ntex::rt::spawn(client.start_default());

    let acked = Rc::new(RefCell::new(Vec::new()));
    let (acked2, sink2) = (acked.clone(), sink.clone());
    sink.publish_ack_cb(move |idx, disconnected| {
        if disconnected {
            return;
        }
        acked2.borrow_mut().push(idx.get());
        // look at the window and refill it
        if sink2.is_ready() && sink2.credit() > 0 && acked2.borrow().len() < 3 {
            let _ = sink2
                .publish(ByteString::from_static("next"))
                .send_at_least_once_no_block(Bytes::new());
        }
    });

    sink.publish(ByteString::from_static("first"))
        .send_at_least_once_no_block(Bytes::new())
        .unwrap();

    for _ in 0..50 {
        if acked.borrow().len() >= 3 {
            break;
        }
        sleep(Millis(20)).await;
    }
    assert_eq!(*acked.borrow(), vec![1, 2, 3], "three acknowledged sends, the 2nd and 3rd issued from the callback");
    assert!(sink.is_open());
    sink.close();
    Ok(())
}
