//! Reproduction: buffered protocol-control packets (PINGREQ, SUBSCRIBE, ..) are
//! not released after the in-flight control call completes, because the io
//! dispatcher is not woken. A quiet peer never gets its PINGRESP / SUBACK.
//!
//! Every variant:
//!  1. CONNECT (keep-alive 600s, so no timer interferes) -> CONNACK
//!  2. [PUBLISH QoS0 +] SUBSCRIBE #1 in one write; both handlers park on a gate
//!  3. PINGREQ + SUBSCRIBE #2 (one or two writes) while the handlers are parked
//!  4. release publish handler, then release SUBSCRIBE #1 handler -> SUBACK #1
//!  5. wait up to 3s for PINGRESP and SUBACK #2 without sending anything else
use std::sync::{Arc, Mutex};
use std::{io, num::NonZeroU16};

use ntex::server;
use ntex::time::{Millis, sleep, timeout};
use ntex::util::{ByteString, Bytes};

use ntex_mqtt::v5::codec::{self, Decoded, Encoded, Packet};
use ntex_mqtt::v5::{Handshake, HandshakeAck, MqttServer, ProtocolMessage, Publish, PublishAck};

struct St;

#[derive(Debug)]
struct TestError;

impl From<()> for TestError {
    fn from(_: ()) -> Self {
        TestError
    }
}

impl TryFrom<TestError> for PublishAck {
    type Error = TestError;

    fn try_from(err: TestError) -> Result<Self, Self::Error> {
        Err(err)
    }
}

async fn handshake(packet: Handshake) -> Result<HandshakeAck<St>, TestError> {
    Ok(packet.ack(St))
}

#[derive(Copy, Clone, Debug)]
struct Variant {
    /// send PUBLISH QoS0 together with SUBSCRIBE #1
    with_publish: bool,
    /// PINGREQ and SUBSCRIBE #2 in separate writes
    separate_writes: bool,
    /// when the publish handler is released relative to the step 3 write
    pub_release: Rel,
    /// delay between publish handler release and SUBSCRIBE #1 handler release
    sub_release_ms: u32,
}

#[derive(Copy, Clone, Debug)]
enum Rel {
    /// released this many ms before the step 3 bytes are written
    Before(u32),
    /// released this many ms after the step 3 bytes are written
    After(u32),
}

type Gate = Arc<Mutex<Option<oneshot::Receiver<()>>>>;
type Log = Arc<Mutex<Vec<String>>>;

fn subscribe(id: u16) -> Encoded {
    Encoded::Packet(
        codec::Subscribe {
            id: None,
            packet_id: NonZeroU16::new(id).unwrap(),
            user_properties: Default::default(),
            topic_filters: vec![(
                ByteString::from("topic1"),
                codec::SubscriptionOptions {
                    qos: codec::QoS::AtLeastOnce,
                    no_local: false,
                    retain_as_published: false,
                    retain_handling: codec::RetainHandling::AtSubscribe,
                },
            )],
        }
        .into(),
    )
}

fn short(pkt: &Decoded) -> String {
    match pkt {
        Decoded::Packet(Packet::PingResponse, _) => "PINGRESP".to_string(),
        Decoded::Packet(Packet::SubscribeAck(ack), _) => format!("SUBACK#{}", ack.packet_id),
        other => format!("{other:?}"),
    }
}

async fn run(v: Variant) -> io::Result<()> {
    let (pub_tx, pub_rx) = oneshot::channel::<()>();
    let (sub_tx, sub_rx) = oneshot::channel::<()>();
    let pub_gate: Gate = Arc::new(Mutex::new(Some(pub_rx)));
    let sub_gate: Gate = Arc::new(Mutex::new(Some(sub_rx)));
    let log: Log = Arc::new(Mutex::new(Vec::new()));

    let (pub_gate2, sub_gate2, log2) = (pub_gate.clone(), sub_gate.clone(), log.clone());
    let srv = server::test_server(async move || {
        let (pub_gate, sub_gate) = (pub_gate2.clone(), sub_gate2.clone());
        let (log_p, log_c) = (log2.clone(), log2.clone());
        MqttServer::new(handshake)
            .protocol(async move |msg| {
                match msg {
                    ProtocolMessage::Subscribe(_) => {
                        // first SUBSCRIBE parks until released, no periodic wakeups
                        let gate = sub_gate.lock().unwrap().take();
                        if let Some(rx) = gate {
                            log_c.lock().unwrap().push("proto: SUBSCRIBE (parked)".into());
                            let _ = rx.await;
                            log_c.lock().unwrap().push("proto: SUBSCRIBE (released)".into());
                        } else {
                            log_c.lock().unwrap().push("proto: SUBSCRIBE".into());
                        }
                    }
                    ProtocolMessage::Ping(_) => log_c.lock().unwrap().push("proto: PING".into()),
                    _ => log_c.lock().unwrap().push("proto: other".into()),
                }
                Ok::<_, TestError>(msg.ack())
            })
            .publish(async move |p: Publish| {
                let gate = pub_gate.lock().unwrap().take();
                if let Some(rx) = gate {
                    log_p.lock().unwrap().push("publish (parked)".into());
                    let _ = rx.await;
                    log_p.lock().unwrap().push("publish (released)".into());
                }
                Ok::<_, TestError>(p.ack())
            })
    });

    // 1. CONNECT -> CONNACK
    let io = srv.connect().await.unwrap();
    let codec = codec::Codec::default();
    let mut connect = codec::Connect::default().client_id("user");
    connect.keep_alive = 600;
    io.send(Encoded::Packet(connect.into()), &codec).await.unwrap();
    let ack = io.recv(&codec).await.unwrap().unwrap();
    assert!(matches!(ack, Decoded::Packet(Packet::ConnectAck(_), _)));

    // 2. [PUBLISH QoS0 +] SUBSCRIBE #1, one write
    if v.with_publish {
        let publish = codec::Publish {
            dup: false,
            retain: false,
            qos: codec::QoS::AtMostOnce,
            topic: ByteString::from("t/0"),
            packet_id: None,
            payload_size: 4,
            properties: Default::default(),
        };
        io.encode(Encoded::Publish(publish, Some(Bytes::from_static(b"abcd"))), &codec).unwrap();
    }
    io.encode(subscribe(1), &codec).unwrap();
    io.flush(true).await.unwrap();
    sleep(Millis(100)).await;

    // (4a. timing variant: publish handler is released just before step 3)
    let mut pub_tx = Some(pub_tx);
    if let Rel::Before(ms) = v.pub_release {
        let _ = pub_tx.take().unwrap().send(());
        if ms > 0 {
            sleep(Millis(ms)).await;
        }
    }

    // 3. PINGREQ + SUBSCRIBE #2 while SUBSCRIBE #1 handler is parked
    io.encode(Encoded::Packet(Packet::PingRequest), &codec).unwrap();
    if v.separate_writes {
        io.flush(true).await.unwrap();
        sleep(Millis(50)).await;
    }
    io.encode(subscribe(2), &codec).unwrap();
    io.flush(true).await.unwrap();

    // 4. release publish handler, then SUBSCRIBE #1 handler
    if let Rel::After(ms) = v.pub_release {
        if ms > 0 {
            sleep(Millis(ms)).await;
        }
        let _ = pub_tx.take().unwrap().send(());
    }
    sleep(Millis(v.sub_release_ms)).await;
    let _ = sub_tx.send(());

    // 5. nothing else is sent; expect SUBACK #1, PINGRESP, SUBACK #2 within 3s
    let mut received = Vec::new();
    while received.len() < 3 {
        match timeout(Millis(3000), io.recv(&codec)).await {
            Ok(Ok(Some(pkt))) => received.push(short(&pkt)),
            Ok(other) => {
                received.push(format!("recv ended: {other:?}"));
                break;
            }
            Err(()) => break,
        }
    }
    let got_in_time = received.clone();
    let log_in_time = log.lock().unwrap().clone();

    // diagnostics only: does an unrelated inbound packet un-stick the server?
    let mut after_nudge = Vec::new();
    if got_in_time.len() < 3 {
        io.send(Encoded::Packet(Packet::PingRequest), &codec).await.unwrap();
        while let Ok(Ok(Some(pkt))) = timeout(Millis(1000), io.recv(&codec)).await {
            after_nudge.push(short(&pkt));
        }
    }

    // tear down before reporting
    let _ = io.send(Encoded::Packet(codec::Disconnect::default().into()), &codec).await;
    drop(io);
    sleep(Millis(50)).await;
    drop(srv);

    println!("variant: {v:?}");
    println!("server handlers invoked before the 3s deadline: {log_in_time:?}");
    println!("server handlers invoked in total: {:?}", log.lock().unwrap());
    println!("received within 3s of release (no further input): {got_in_time:?}");
    println!("received after extra PINGREQ nudge: {after_nudge:?}");

    let expected = ["SUBACK#1", "PINGRESP", "SUBACK#2"];
    if got_in_time == expected {
        Ok(())
    } else {
        Err(io::Error::other(format!(
            "STALL: expected {expected:?} within 3s, got {got_in_time:?} \
             (after nudge: {after_nudge:?})"
        )))
    }
}

/// Sequence as found by the simulator
#[ntex::test]
async fn stall_publish_and_subscribe_parked() -> io::Result<()> {
    run(Variant {
        with_publish: true,
        separate_writes: false,
        pub_release: Rel::After(30),
        sub_release_ms: 50,
    })
    .await
}

/// No PUBLISH, just SUBSCRIBE #1 parked, then PINGREQ + SUBSCRIBE #2
#[ntex::test]
async fn stall_subscribe_parked_only() -> io::Result<()> {
    run(Variant {
        with_publish: false,
        separate_writes: false,
        pub_release: Rel::After(30),
        sub_release_ms: 50,
    })
    .await
}

/// PINGREQ and SUBSCRIBE #2 in separate writes
#[ntex::test]
async fn stall_separate_writes() -> io::Result<()> {
    run(Variant {
        with_publish: true,
        separate_writes: true,
        pub_release: Rel::After(30),
        sub_release_ms: 50,
    })
    .await
}

/// Publish handler completes right before the PINGREQ + SUBSCRIBE #2 bytes are
/// processed, so PINGREQ is dispatched inline by the io dispatcher and
/// SUBSCRIBE #2 in a spawned task (the schedule found by the simulator)
#[ntex::test]
async fn stall_publish_released_just_before_step3() -> io::Result<()> {
    run(Variant {
        with_publish: true,
        separate_writes: false,
        pub_release: Rel::Before(0),
        sub_release_ms: 50,
    })
    .await
}

#[ntex::test]
async fn stall_publish_released_50ms_before_step3() -> io::Result<()> {
    run(Variant {
        with_publish: true,
        separate_writes: false,
        pub_release: Rel::Before(50),
        sub_release_ms: 50,
    })
    .await
}

#[ntex::test]
async fn stall_publish_released_before_step3_separate_writes() -> io::Result<()> {
    run(Variant {
        with_publish: true,
        separate_writes: true,
        pub_release: Rel::Before(50),
        sub_release_ms: 50,
    })
    .await
}

/// Racy: publish handler released immediately after the step 3 write
#[ntex::test]
async fn stall_publish_released_right_after_step3() -> io::Result<()> {
    run(Variant {
        with_publish: true,
        separate_writes: false,
        pub_release: Rel::After(0),
        sub_release_ms: 50,
    })
    .await
}
