//! Registry: which families decide which property, budgets, non-triviality rule.
use crate::check::PropSpec;
use crate::families::Family;
use crate::oracle::{Ix, probe_c04};
use crate::runner::RunOut;

const BASE_ASSUMPTIONS: [&str; 4] = [
    "schedules are those the real single-threaded ntex runtime can produce: runnable tasks run in FIFO wake order; what varies is where external events land between task polls",
    "transport is a reliable ordered byte stream (TCP): fragmentation, delay, stalls, FIN, RST and write errors are injected, loss/duplication/reordering of bytes are not",
    "the two vendored crates (ntex-rt queue seam, ntex-util simulated clock) and refcodec (independent MQTT codec) are trusted",
    "a clean batch is evidence for the sampled schedules and inputs, not a proof",
];

fn nt_any(_: &RunOut) -> bool {
    true
}

fn nt_c03(r: &RunOut) -> bool {
    // non-trivial: at least two publish handlers overlapped, or a handler failed, or a payload was streamed
    let ix = Ix::new(r);
    let gs: Vec<_> = ix.pub_gates(0).map(|(g, _)| g.clone()).collect();
    let overlapped = gs.iter().enumerate().any(|(i, a)| {
        gs.iter().skip(i + 1).any(|b| a.exit.as_ref().is_none_or(|(x, _)| b.enter < *x))
    });
    let failed = gs.iter().any(|g| matches!(g.exit, Some((_, ref o)) if *o != crate::world::Outcome::Ok));
    let streamed = gs.iter().any(|g| !g.pieces.is_empty());
    overlapped || failed || streamed
}

fn nt_c04(r: &RunOut) -> bool {
    probe_c04(&Ix::new(r))
}

fn nt_c05(r: &RunOut) -> bool {
    crate::oracle::probe_c05(&Ix::new(r))
}

fn nt_c06(r: &RunOut) -> bool {
    let ix = Ix::new(r);
    ix.fault("ack_deviation") > 0 || r.peers.first().is_some_and(|p| p.max_window >= 2)
}

fn nt_c08(r: &RunOut) -> bool {
    let ix = Ix::new(r);
    ix.ops.iter().any(|o| o.brief.starts_with("Stream") || o.brief.starts_with("Bad") || matches!(o.done, Some((_, crate::world::OpResult::Err(_)))))
}

fn nt_c13(r: &RunOut) -> bool {
    let ix = Ix::new(r);
    crate::oracle::probe_c05(&ix) && (ix.fault("cancel_op") > 0 || ix.ops.iter().any(|o| o.brief == "Ready") || ix.fault("wr_stall") > 0)
}

fn nt_c07(r: &RunOut) -> bool {
    crate::oracle::probe_c07(&Ix::new(r))
}

fn nt_c11(r: &RunOut) -> bool {
    crate::oracle::probe_c11(&Ix::new(r))
}

fn nt_c12(r: &RunOut) -> bool {
    crate::oracle::probe_c12(&Ix::new(r))
}

fn nt_c15(r: &RunOut) -> bool {
    let ix = Ix::new(r);
    r.plan.tags.len() >= 2 || ix.eps.iter().any(|e| matches!(e.pkt, crate::refcodec::Pkt::Disconnect(_)))
}

fn nt_c17(r: &RunOut) -> bool {
    let ix = Ix::new(r);
    ix.gates.iter().any(|g| matches!(&g.desc, crate::world::GateDesc::Publish(p) if p.alias.is_some()))
        && ix.sent.iter().any(|s| matches!(&s.pkt, Some(crate::refcodec::Pkt::Publish(p)) if p.topic.is_empty() && s.delivered.is_some()))
}

fn nt_c20(r: &RunOut) -> bool {
    let ix = Ix::new(r);
    ix.stops.iter().any(|s| matches!(&s.2, crate::world::StopClass::Protocol(m) if m.contains("Timeout")))
        || ix.conn_done.iter().any(|c| c.2.contains("Timeout"))
        || r.stats.sim_ms >= 6000
}

fn nt_c02(r: &RunOut) -> bool {
    r.stats.faults.get("mutation").copied().unwrap_or(0) > 0
}

fn nt_c10(r: &RunOut) -> bool {
    if r.plan.family == "C10" {
        return r.hist.iter().any(|e| matches!(&e.ev, crate::world::Ev::Note { what } if what.contains("len=") && !what.contains("len=0 ")));
    }
    let ix = Ix::new(r);
    ix.gates.iter().any(|g| g.pieces.len() > 1) || ix.fault("frag") > 0
}

fn nt_c19(r: &RunOut) -> bool {
    r.plan.tags.iter().any(|t| t.starts_with("limit:") || (t.starts_with("first:") && t != "first:connect"))
}

fn nt_c14(r: &RunOut) -> bool {
    crate::oracle::probe_c14(&Ix::new(r))
}

pub fn spec(id: &str) -> Option<PropSpec> {
    let base: Vec<&'static str> = BASE_ASSUMPTIONS.to_vec();
    Some(match id {
        "C02" => PropSpec {
            id: "C02",
            level: "exploration",
            families: vec![(Family::C02, 100)],
            quick_runs: 60_000,
            thorough_runs: 6_000_000,
            rule: "codec-level simulation: the real v3 / v5 codecs behind a simulated transport that decides how the byte stream is cut into reads. One run = a stream of 1..4 frames produced by the independent encoder (refcodec) from random valid packets (all packet types, v5 properties, payloads 0..20000 bytes), in 5 of 6 runs with one structure-aware mutation (remaining length inflated/deflated, truncation at any offset, bit flip, byte replaced, inner two-byte length +-k, QoS 3, zero packet id, invalid UTF-8 byte, unknown property, repeated once-only property, unknown reason code, splice, fixed-header flag flip), in 1 of 8 runs 0..6 random bytes; a PINGREQ sentinel follows; inbound maximum 0/64/300 or 1..20 bytes, min chunk 0/1/4/1024/32768; the stream is decoded in one read and under 2..4 fragmentations (one read, byte at a time, dense cuts at the start, random cut sets); for streams of at most 160 bytes one run in six additionally enumerates EVERY cut into two reads and (up to 40 bytes) EVERY cut into three reads (probe all-cuts-enumerated). Oracle: no panic or arithmetic overflow (overflow checks on); same packets, same complete payloads and the same error-or-not for every fragmentation; bytes consumed when a complete packet is returned end exactly at its frame; a frame the strict independent decoder puts into a must-reject class (length/count contradiction incl. trailing bytes, unknown or repeated property, unknown reason code, zero packet id, QoS 3, ill-formed UTF-8) is never accepted; an over-long frame is refused when only its fixed header has arrived; every accepted packet re-encodes and decodes to itself. The version-sniffing codec is private to the crate and is exercised at connection level by C19 only; distinct = (version, configuration, item kinds, error kind, stream length); non-trivial = a mutation was applied",
            nontrivial: nt_c02,
            assumptions: vec![
                "the independent codec (refcodec) classifies frames correctly; U+0000 inside a string is not counted as ill-formed UTF-8",
                "sampled, not exhaustive: byte strings up to length 6 are drawn at random rather than enumerated",
                "a clean batch is evidence for the sampled streams and fragmentations, not a proof",
            ],
        },
        "C10" => PropSpec {
            id: "C10",
            level: "exploration",
            families: vec![(Family::C10, 50), (Family::C10C, 50)],
            quick_runs: 30_000,
            thorough_runs: 3_000_000,
            rule: "two levels. Codec level: a stream of 1..4 valid packets (payloads 0..20000 bytes) decoded in one read and under 2..4 fragmentations (plus, for short streams in a sixth of the runs, every cut into two and three reads) for min chunk 0/1/4/1024/32768: same packets and payload bytes, each PUBLISH announced once with its declared size, pieces add up to it, exactly one final piece, no non-final non-empty piece below the minimum, nothing leaks into the next packet, valid streams decode completely. Connection level (real dispatcher, gated handlers): 1..4 publishes with payload sizes around chunk and varint boundaries (0..300 KiB) delivered in one piece, byte at a time, around packet boundaries or in random cuts, max payload buffer 64 B..128 KiB, read buffer 1..64 KiB, readers eager (read_all at once) / late (read_all when the simulator allows, possibly after every piece has arrived) / lazy (read() piece by piece, paced by the simulator) / abandoning: the handler receives exactly the bytes sent, in order; distinct = abstract history signature; non-trivial = a payload was delivered to the decoder or the handler in more than one piece",
            nontrivial: nt_c10,
            assumptions: base,
        },
        "C03" => PropSpec {
            id: "C03",
            level: "exploration",
            families: vec![(Family::C03, 80), (Family::C11, 20)],
            quick_runs: 25_000,
            thorough_runs: 1_500_000,
            rule: "one run = one seeded plan (1..8 inbound PUBLISH QoS0/1/2 inline or streamed, interleaved with PUBREL/PINGREQ/SUBSCRIBE/UNSUBSCRIBE; gated handlers completing ok/negative/error, immediately or later; random fragmentation) executed under a seeded placement of external events; a fifth of the runs are C11's histories over the ids {1,2,3}, where identifiers are re-used after their exchange completed (also after a refusing PUBREC): a PUBLISH whose identifier is free must reach its handler, a success PUBCOMP needs an accepted QoS 2 publish waiting for its PUBREL; distinct = distinct abstract history signature; non-trivial = two publish handlers overlapped, a handler failed, or a payload was streamed in pieces",
            nontrivial: nt_c03,
            assumptions: base,
        },
        "C04" => PropSpec {
            id: "C04",
            level: "exploration",
            families: vec![(Family::C04, 60), (Family::C04X, 40)],
            quick_runs: 22_000,
            thorough_runs: 1_800_000,
            rule: "two families. (1) C04X, enumeration: a set of 2..4 concurrent requests owing responses (PUBLISH QoS 1/2, SUBSCRIBE, UNSUBSCRIBE, PINGREQ) is drawn from one seed; then EVERY completion order (all n! permutations of the handler invocations, numbered in the order they start) combined with EVERY mix of immediately-completing and deferred handlers (all 2^n masks) is executed in all four roles, every other draw (request contents, fragmentation, placement of deliveries, write stalls in a third of the sets) being identical: 1760 points per request set; an order that the endpoint cannot produce (protocol requests are started one at a time) runs as far as it goes and is completed in the closing phase. (2) C04, seeded: 2..10 requests (also PUBREL and, on MQTT 5 servers, AUTH) arriving in one read or many, each handler gated and completed in a seeded order (mix of immediate and deferred), with and without write back-pressure episodes (stalls, byte-wise write grants). Oracle: every response on the wire is mapped to its request; request indices strictly increase, no duplicate, and no response is lost on a healthy settled connection; distinct = distinct abstract history signature; non-trivial = at least two handler invocations overlapped and completed in an order different from arrival",
            nontrivial: nt_c04,
            assumptions: base,
        },
        "C05" => PropSpec {
            id: "C05",
            level: "exploration",
            families: vec![(Family::C05, 60), (Family::C13, 25), (Family::C13X, 15)],
            quick_runs: 28_000,
            thorough_runs: 2_000_000,
            rule: "Part of the runs come from the enumerating family C13X (every short sequence of start / drop / acknowledge / back-pressure events against three senders, see C13), judged by the same oracle; one run = 1..limit+3 sender tasks (QoS1/QoS2 publishes, subscribe/unsubscribe in client roles, ready()) against a send limit 1..4 set through config, handshake override, peer Receive Maximum or CONNACK; peer acknowledges singly or batched; waiting futures cancelled; write stalls toggled; oracle counts on the wire: QoS1/2 PUBLISH written minus final acks the peer has SENT must never exceed the limit; distinct = distinct abstract history signature; non-trivial = the window was full at least once while more operations than the limit were started",
            nontrivial: nt_c05,
            assumptions: base,
        },
        "C06" => PropSpec {
            id: "C06",
            level: "exploration",
            families: vec![(Family::C06, 68), (Family::C14, 17), (Family::C13X, 15), (Family::C06L, 0)],
            quick_runs: 28_000,
            thorough_runs: 2_000_000,
            rule: "(MQTT 5: in a third of the C06 / C14 runs the peer's acknowledgements carry a user property and a reason string, in three orders; what the awaiting caller is handed - identifier, reason code, return codes, user properties, reason string - must be what the peer sent.) 16 runs (thorough; quick: 4, one per role) of the long-history family C06L - five senders make more than 65 536 sends (QoS 1, now and then exactly-once or subscribe) over one connection with a window of 1..16, so that the 16-bit identifier counter wraps with exchanges outstanding; linear-time oracle: identifiers non-zero and never carried by two exchanges at once, every send completes with the acknowledgement of its own identifier, no panic, the connection stays up. Part of the runs come from the enumerating family C13X (every short sequence of start / drop / acknowledge / back-pressure events against three senders, see C13), judged by the same oracle; one run = sends with automatic and caller-chosen ids acknowledged by a peer that is correct or injects one deviation (reordered id, wrong ack type, duplicate, unknown id, unsolicited); reference model = FIFO of outstanding exchanges seen on the wire; oracle: Ok only after a matching ack of the right type was sent, contents equal, ids of outstanding sends distinct and non-zero, deviation ends the connection, correct peer never does; distinct = distinct abstract history signature; non-trivial = a deviation was actually delivered, or two or more exchanges were outstanding together",
            nontrivial: nt_c06,
            assumptions: base,
        },
        "C07" => PropSpec {
            id: "C07",
            level: "fault_enumeration",
            families: vec![(Family::C07, 60), (Family::C07X, 40)],
            quick_runs: 40_000,
            thorough_runs: 3_000_000,
            rule: "(Handlers of a connection whose task has completed are not opened by the simulator any more: a handler the library fails to cancel stays parked and is reported as left waiting. Motifs: the termination cause in the same read as the last publishes; a SUBSCRIBE handler that publishes through the sink and awaits the acknowledgement.) two families. (1) C07X, fault enumeration: a base scenario (0..4 inbound publishes of 0..40 payload bytes with gated / held handlers, eager / lazy / abandoning payload readers, 0..3 sender tasks awaiting acks or parked on a window of 1..2, optional write back-pressure, control(Stop) gated or not) is drawn from one seed; then EVERY fault point of the grid is executed against it, all other draws being identical: peer FIN, peer RST and a write error at each simulator step 1..96, the peer's byte stream ending with FIN and with RST after each byte offset 0..255 (bytes beyond it never arrive: truncated CONNECT, truncated fixed header, truncated payload ...), and the endpoint's writes failing after each output byte offset 0..127; 928 fault points per base scenario, points that lie beyond the end of the scenario leave it to the closing FIN. (2) C07, seeded sweep: larger base scenarios (payloads up to 2000 bytes) and one termination cause drawn from: FIN / RST / write error at a step drawn uniformly over the run, undecodable bytes or a packet cut short followed by FIN, protocol violation (second CONNECT, unknown topic alias, duplicate id), failing publish/protocol handlers, keep-alive expiry on the simulated clock, local close / close_with_reason / force_close, peer DISCONNECT; control(Stop) gated in half of the runs and answering none / own DISCONNECT / error; every run ends with a closing FIN. Oracle at final quiescence (both families): exactly one Stop once the connection's services exist, its class names a cause present in the history (or a documented consequence of one), the connection task completed, every started send / ready() resolved (Disconnected when it was pending across the end), no handler left waiting, a handler cancelled only after the Stop notification had been handled, a waiting payload reader observed an error, no panic; distinct = distinct abstract history signature; non-trivial = a handler invocation or a send was in flight when the connection ended",
            nontrivial: nt_c07,
            assumptions: base,
        },
        "C08" => PropSpec {
            id: "C08",
            level: "exploration",
            families: vec![(Family::C08, 55), (Family::C05, 15), (Family::C03, 15), (Family::C07, 15)],
            quick_runs: 24_000,
            thorough_runs: 2_000_000,
            rule: "one run = interleaved sink operations (QoS0/1/2, streamed sends with under/over-delivery and dropped handles, sends that fail in the encoder: over-long topic or filter, id in use, send during streaming) concurrent with inbound traffic answered by the dispatcher and write stalls; every byte the endpoint writes is parsed by the independent refcodec: complete well-formed packets only, failed sends leave nothing, payload bytes are position-coded; distinct = distinct abstract history signature; non-trivial = a streamed send or a locally failing send took part",
            nontrivial: nt_c08,
            assumptions: base,
        },
        "C13" => PropSpec {
            id: "C13",
            level: "exploration",
            families: vec![(Family::C13, 54), (Family::C05, 10), (Family::C08, 10), (Family::C13X, 26)],
            quick_runs: 150_000,
            thorough_runs: 3_900_000,
            rule: "two kinds of family. (1) C13X, enumeration: EVERY sequence of length 1..3 (thorough; quick: 1..2, length 4 in part) of external events over 27 letters - start the next operation of one of three senders, drop its pending operation, the peer acknowledges the oldest exchange, the transport stops / resumes taking writes (write back-pressure on / off); starting and dropping also 0, 1 or 2 task polls behind the previous letter, i.e. between an event and the wake-up it causes - in all four roles, for send windows of 1 and 2 and six sender kits (QoS 1 only; with ready(); with an exactly-once exchange; with a non-blocking send, a QoS 0 send and a future dropped unpolled; with caller-chosen identifiers that collide; with subscribe / unsubscribe (clients) or a streamed publish (servers)): 48 configurations x 27^len sequences, ordered by length; every letter is performed once the system has gone quiet unless it carries a poll delay; then the closing phase. (2) seeded families: as C05 plus a cooperative closing phase: the peer acknowledges everything it received, stalls are lifted; at final quiescence with fewer exchanges outstanding than the limit every started operation that was not cancelled must have completed (bounded liveness: nothing is left that could wake it); distinct = distinct abstract history signature; non-trivial = at least one operation was parked on the window or on back-pressure (window reached the limit) and a cancellation or ready() took part",
            nontrivial: nt_c13,
            assumptions: base,
        },
        "C14" => PropSpec {
            id: "C14",
            level: "exploration",
            families: vec![(Family::C14, 100)],
            quick_runs: 24_000,
            thorough_runs: 2_000_000,
            rule: "one run = 2..4 sender tasks doing exactly-once sends (release or drop of the receipt) mixed with QoS1 traffic, PUBRECs delivered singly or batched, PUBCOMPs in any order allowed by the PUBRELs; oracle per exchange: receipt carries own id after own PUBREC, exactly one PUBREL with own id after release/drop, release resolves only after own PUBCOMP and does resolve; distinct = distinct abstract history signature; non-trivial = two exactly-once exchanges of different senders overlapped",
            nontrivial: nt_c14,
            assumptions: base,
        },
        "C11" => PropSpec {
            id: "C11",
            level: "exploration",
            families: vec![(Family::C11, 55), (Family::C11X, 45)],
            quick_runs: 26_000,
            thorough_runs: 2_000_000,
            rule: "two families. (1) C11X, enumeration: EVERY history of length 1..4 over the alphabet {PUBLISH QoS 1, PUBLISH QoS 2, SUBSCRIBE, UNSUBSCRIBE, PUBREL} x identifiers {1, 2} (servers: 10 letters; clients: the 6 letters a server may send), in all four roles and four handler modes (all handlers complete at once; gated and completed in a seeded order; gated with negative outcomes and some held until the closing phase; gated with PUBRELs that do not wait for PUBREC): 101,312 points, ordered so that the first 10,944 are all histories of length <= 3; the quick tier executes those, the thorough tier the whole enumeration repeatedly, each execution under its own seeded schedule. (2) C11, seeded: 3..10 requests over the ids {1,2,3} (also stray PUBRELs) against gated handlers completing ok/negative before or after the reuse attempt. Wire-side model: an id is open from the request until the k-th closing ack (PUBACK / refusing PUBREC / PUBCOMP / SUBACK / UNSUBACK) of its kind, refusals (0x91, 0x92) attributed to the most plausible request; oracle: a request whose id is certainly in use (its holder's handler has not completed; QoS 2: the handler of its PUBREL has not completed) never reaches a handler, one whose id is certainly free is never refused, a PUBREL for an id not in use is refused; distinct = distinct abstract history signature; non-trivial = an id was used by two requests in the run",
            nontrivial: nt_c11,
            assumptions: base,
        },
        "C12" => PropSpec {
            id: "C12",
            level: "exploration",
            families: vec![(Family::C12, 100)],
            quick_runs: 24_000,
            thorough_runs: 2_000_000,
            rule: "one run = a burst of 2..10 publishes (sizes around the byte limit, some streamed in pieces) against gated handlers, max_receive 0..4, max_receive_size 0/small/large, v3 default middleware (server), v3 client limiter, v5 Receive Maximum (server and client); oracle: handler overlap <= max_receive (v3), packet bytes inside handlers <= max_receive_size + one packet, a QoS1/2 publish never reaches a v5 handler when handlers running plus QoS2 exchanges awaiting PUBREL already equal Receive Maximum, a peer within Receive Maximum is never disconnected with 0x93, and after the closing phase (all gates opened) every delivered publish was handled and every handler finished; distinct = distinct abstract history signature; non-trivial = a configured limit was reached (handlers running == max_receive, bytes over max_receive_size, or unacknowledged publishes == Receive Maximum)",
            nontrivial: nt_c12,
            assumptions: base,
        },
        "C15" => PropSpec {
            id: "C15",
            level: "exploration",
            families: vec![(Family::C15, 70), (Family::C07, 30)],
            quick_runs: 30_000,
            thorough_runs: 2_500_000,
            rule: "MQTT 5 roles only. One run = some ordinary traffic plus 1..3 close initiators in a seeded order: application close / close_with_reason / close_with_no_reason / force_close (once or twice), protocol handler asking to disconnect, failing handler, control(Stop) answering none / own DISCONNECT / error (gated in half of the runs), peer DISCONNECT with or without a (mis-placed) session expiry, undecodable bytes, duplicate CONNECT/CONNACK, and the causes with a dedicated reason code: keep-alive expiry (0x8D), packet too large (0x95), receive maximum exceeded (0x93), QoS not supported (0x9B), retain not supported (0x9A), subscription identifiers not supported (0xA1), unknown topic alias (0x94); violating publishes carry payloads that arrive in pieces. Oracle on the peer-side packet stream: at most one DISCONNECT and nothing after it (monitors on every run of every family), none after the peer's DISCONNECT was received, never 0x00 when the connection ends for an error and the application supplied no packet, the dedicated code for the cause named in the Stop notification and - when it is the only thing injected - for the injected cause; distinct = distinct abstract history signature; non-trivial = the endpoint wrote a DISCONNECT or two initiators took part",
            nontrivial: nt_c15,
            assumptions: base,
        },
        "C16" => PropSpec {
            id: "C16",
            level: "exploration",
            families: vec![(Family::C16X, 40), (Family::C16, 38), (Family::C11, 6), (Family::C06, 5), (Family::C04, 5), (Family::C12, 6)],
            quick_runs: 33_000,
            thorough_runs: 2_500_000,
            rule: "two families. (1) C16X, enumeration: the packet alphabet of a role (28 letters for MQTT 5, 23 for MQTT 3.1.1: QoS 1 / QoS 2 PUBLISH, PUBACK, PUBREC, PUBREL, PUBCOMP, SUBSCRIBE, SUBACK, UNSUBSCRIBE, UNSUBACK each with identifier 1 and 2; QoS 0 PUBLISH, PINGREQ, PINGRESP, a second CONNECT / CONNACK, DISCONNECT, and for MQTT 5 AUTH, DISCONNECT with a reason and a PUBLISH with a never-bound topic alias), EVERY sequence of length 1, 2 and 3 over it, in all four roles, against five application states (idle with immediate handlers; idle with gated handlers; an at-least-once and an exactly-once send outstanding and a silent peer; a streamed send, ready() and a subscribe / publish in progress with an acknowledging peer; the sequence sent instead of the handshake): 354,830 points, ordered so that the first 13,640 are all sequences of length <= 2; the quick tier executes those (complete for length <= 2), the thorough tier executes the whole enumeration several times, each execution under its own seeded schedule (fragmentation, placement of handler completions and acknowledgements). (2) C16, seeded: 1..8 well-formed packets drawn from 17 (v5) / 15 (v3) templates with ids {1,2,3} and payloads up to 300 bytes, optionally instead of the handshake, against idle or busy application state, plus the motif of a streamed publish right after a publish with the same id. Both end with a liveness probe (PINGREQ to servers, QoS 1 publish to clients); oracle: no panic anywhere (monitor applies to every family), connection either alive and answering the probe at final quiescence or ended with exactly one Stop to the control service and a completed connection task; a packet that can only be a protocol violation (an acknowledgement when the endpoint never sent anything, a MQTT 3.1.1 PUBLISH re-using the identifier of a publish whose handler is still running, a MQTT 5 PUBLISH with a never-bound alias) has ended the connection by the time the scripted part goes quiet, even with unrelated publish handlers still busy; distinct = distinct abstract history signature; non-trivial = every run",
            nontrivial: nt_any,
            assumptions: base,
        },
        "C17" => PropSpec {
            id: "C17",
            level: "exploration",
            families: vec![(Family::C17, 100)],
            quick_runs: 24_000,
            thorough_runs: 2_000_000,
            rule: "MQTT 5 roles. One run = per connection 2..9 publishes over the topics {a, b/1, t/5, x/y, b/2} and aliases 1..max (Topic Alias Maximum 1..3): bind, rebind to a different topic, use by alias only, plain publish, and in a third of the scripts one publish whose alias was never bound or exceeds the maximum; two concurrent connections with independent scripts in the server role (one in the client role: the harness drives a single client), with and without the topic router (resources a, b/{x}, t/{id}), gated handlers, random fragmentation. Reference model: one alias table per connection; oracle: the k-th valid publish of a connection reaches the k-th handler invocation of that connection with the model's topic, the route the resolved topic selects, and its own payload; an invalid alias never reaches a handler and ends the connection with a protocol error; distinct = distinct abstract history signature; non-trivial = an alias was used without a topic after having been bound",
            nontrivial: nt_c17,
            assumptions: base,
        },
        "C19" => PropSpec {
            id: "C19",
            level: "exploration",
            families: vec![(Family::C19, 58), (Family::C19W, 17), (Family::C19C, 12), (Family::C20, 13)],
            quick_runs: 26_000,
            thorough_runs: 2_000_000,
            rule: "(Keep-alives up to 65 535 s; a Server Keep Alive in CONNACK without an override by the handshake is a violation. Family C19C: the limits a MQTT 5 client announced in CONNECT are the ones it enforces.) server roles, plain v3 / v5 server or the combined (version sniffing) server in front of both. First packet: a valid CONNECT (keep-alive 0 / 10 / 60000), any other packet type, CONNECT with an unknown protocol name (MQTX, MQIsdp, mqtt, empty) or level (0, 3, 6, 255) or the reserved connect flag, handshake service refusing (every refusal code) / failing / answering slowly (gated); 1..2 small publishes are pipelined right behind it; the stream is delivered in one piece, byte at a time or in random cuts. After an accepted CONNECT one limit is probed at and just beyond its negotiated value: inbound maximum packet size (configured, or MQTT 5 handshake override), maximum QoS (configured / override), topic alias maximum (configured / override), receive maximum (configured / override, handlers held). Oracle: no publish/protocol handler before the handshake service accepted the CONNECT, none at all otherwise; invalid first packets never reach the handshake service and end the connection; a refusal is preceded by a CONNACK with the refusing code; the CONNECT is handled by the service of its protocol level with its fields intact and pipelined packets are handled after acceptance; MQTT 5 CONNACK announces receive maximum, maximum QoS, topic alias maximum, maximum packet size and an imposed keep-alive as in force; the probe at the limit is handled, the one beyond it is refused with a protocol error. A quarter of the runs use C05's outbound workload on server roles with every combination of configured max_send, handshake override and the peer's Receive Maximum: QoS1/2 publishes on the wire and not finally acknowledged never exceed min(configured or overridden, peer's Receive Maximum). A seventh of the runs are C20's keep-alive scenarios on the simulated clock (client values 1, 2, 3, 6 s and 0; handshake overrides 1..8 s, also imposed on a client that asked for 60 s): the timeout in force is 1.5 times the client's value or exactly the override - never shorter (exact), never more than 2 s longer (timer wheel); distinct = abstract history signature; non-trivial = the first packet was not a plain accepted CONNECT, or a limit probe was delivered",
            nontrivial: nt_c19,
            assumptions: base,
        },
        "C20" => PropSpec {
            id: "C20",
            level: "exploration",
            families: vec![(Family::C20, 100), (Family::C20L, 0)],
            quick_runs: 24_000,
            thorough_runs: 1_500_000,
            rule: "16 runs (thorough; quick: 4) of the long-time family C20L - two simulated hours of a live connection (server: a packet every keep-alive period or half period, some in two pieces, with and without a frame read rate, then silence; client: pings for two hours next to an exhausted send window, the broker publishing once a minute), judged by the same clauses. timers run on the simulated clock; arrival patterns on a 0.5/1 s grid. Four scenario kinds: (1) server keep-alive 1..3 s / 0, optional handshake override 1..3 s, 0..5 complete packets (some cut in two pieces delivered 0.5..2 s apart) at gaps of 0.5..4 s, then silence, handlers immediate or held; (2) frame read rate (timeout 1..2 s, max 0/4/6 s, rate 4/16/64 B) against one frame that trickles 1..128 bytes every 0.5..2 s and finishes or stalls; (3) connect timeout 1..3 s against a CONNECT that is on time, late, cut in two, a fragment, or never sent; (4) client keep-alive 1..3 s with a peer that answers PINGREQ or not. Oracle with 1 s slack (timer wheel granularity): a keep-alive timeout only after the timeout in force since the last complete packet, every silence longer than it ends the connection with the keep-alive reason (MQTT 5: DISCONNECT 0x8D), no read timeout without a pending partial frame or for a frame completed in time, a frame that stalls for good is ended with a read timeout, connect timeout enforced and not applied to a CONNECT that was on time, client writes PINGREQ at least once per keep-alive period and is never ended by these timers; distinct = distinct abstract history signature; non-trivial = a timer ended the connection or the run covered at least two keep-alive periods",
            nontrivial: nt_c20,
            assumptions: base,
        },
        _ => {
            return None;
        }
    })
}

pub const ALL: [&str; 17] = ["C02", "C10", "C03", "C04", "C05", "C06", "C07", "C08", "C11", "C12", "C13", "C14", "C15", "C16", "C17", "C19", "C20"];
