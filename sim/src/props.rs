//! Registry: which families decide which property, budgets, non-triviality rule.
use crate::check::PropSpec;
use crate::families::Family;
use crate::oracle::{Ix, probe_c04};
use crate::runner::RunOut;

const BASE_ASSUMPTIONS: [&str; 4] = [
    "schedules are those the real single-threaded ntex runtime can produce: runnable tasks run in FIFO wake order; what varies is where external events land between task polls",
    "transport is a reliable ordered byte stream (TCP): fragmentation, delay, stalls, FIN, RST and write errors are injected, loss/duplication/reordering of bytes are not",
    "the two vendored crates (ntex-rt queue seam, ntex-util simulated clock) and refcodec (independent MQTT codec) are trusted",
    "a clean batch is evidence for the sampled schedules and inputs, not a proof",
];

fn nt_any(_: &RunOut) -> bool {
    true
}

fn nt_c03(r: &RunOut) -> bool {
    // non-trivial: at least two publish handlers overlapped, or a handler failed, or a payload was streamed
    let ix = Ix::new(r);
    let gs: Vec<_> = ix.pub_gates(0).map(|(g, _)| g.clone()).collect();
    let overlapped = gs.iter().enumerate().any(|(i, a)| {
        gs.iter().skip(i + 1).any(|b| a.exit.as_ref().is_none_or(|(x, _)| b.enter < *x))
    });
    let failed = gs.iter().any(|g| matches!(g.exit, Some((_, ref o)) if *o != crate::world::Outcome::Ok));
    let streamed = gs.iter().any(|g| !g.pieces.is_empty());
    overlapped || failed || streamed
}

fn nt_c04(r: &RunOut) -> bool {
    probe_c04(&Ix::new(r))
}

pub fn spec(id: &str) -> Option<PropSpec> {
    let base: Vec<&'static str> = BASE_ASSUMPTIONS.to_vec();
    Some(match id {
        "C03" => PropSpec {
            id: "C03",
            level: "exploration",
            families: vec![(Family::C03, 100)],
            quick_runs: 20_000,
            thorough_runs: 1_500_000,
            rule: "one run = one seeded plan (1..8 inbound PUBLISH QoS0/1/2 inline or streamed, interleaved with PUBREL/PINGREQ/SUBSCRIBE/UNSUBSCRIBE; gated handlers completing ok/negative/error, immediately or later; random fragmentation) executed under a seeded placement of external events; distinct = distinct abstract history signature; non-trivial = two publish handlers overlapped, a handler failed, or a payload was streamed in pieces",
            nontrivial: nt_c03,
            assumptions: base,
        },
        "C04" => PropSpec {
            id: "C04",
            level: "exploration",
            families: vec![(Family::C04, 100)],
            quick_runs: 20_000,
            thorough_runs: 1_500_000,
            rule: "one run = 2..10 requests owing responses (PUBLISH QoS1/2, PUBREL, SUBSCRIBE, UNSUBSCRIBE, PINGREQ) arriving in one read or many, each handler gated and completed in a seeded order (mix of immediate and deferred); distinct = distinct abstract history signature; non-trivial = at least two handler invocations overlapped and completed in an order different from arrival",
            nontrivial: nt_c04,
            assumptions: base,
        },
        _ => {
            let _ = nt_any;
            return None;
        }
    })
}

pub const ALL: [&str; 2] = ["C03", "C04"];
