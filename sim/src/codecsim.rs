//! Codec-level simulation (C02, C10): the decoder under a simulated transport.
//!
//! The only nondeterminism a codec meets is *how the byte stream is cut into reads* (and its
//! configuration): the simulator owns both. One run draws a byte stream (valid packets, or a
//! structure-aware mutation of valid packets), a codec configuration and several fragmentations,
//! drives the real `v3::codec::Codec` / `v5::codec::Codec` through `Decoder::decode` exactly as
//! ntex-io does (append what arrived, decode until `None`), and judges:
//!
//!  C02  no panic / overflow; the outcome (items, then possibly one error) does not depend on the
//!       fragmentation; nothing is consumed beyond the frame reported; a frame the independent
//!       strict decoder (refcodec) puts into one of the must-reject classes is never accepted; an
//!       over-long frame is refused on its fixed header alone; accepted packets are stable under
//!       re-encoding.
//!  C10  for valid streams: same packets and same payload bytes for every fragmentation and every
//!       min-chunk setting; each PUBLISH announced once with its declared size; pieces add up;
//!       exactly one final piece; no non-final non-empty piece below the minimum; no leak into the
//!       next packet.
use ntex_bytes::BytesMut;
use ntex_codec::{Decoder, Encoder};

use crate::choice::Choices;
use crate::families::{Family, base_plan, mk_publish, template};
use crate::oracle::Violation;
use crate::refcodec::{self as rc, Frame, Pkt, PropVal, Ver};
use crate::rng::Fnv;
use crate::runner::RunOut;
use crate::world::{Ev, Event, Role, Stats};

/// What the decoder produced, version-independent.
#[derive(Clone, Debug, PartialEq, Eq)]
pub enum Item {
    /// (debug rendering of the packet, reported size, stable under re-encoding?)
    Packet(String, u32, Result<(), String>),
    /// (debug rendering of the header, declared payload size, first piece, reported size, stable?)
    Publish(String, u32, Vec<u8>, u32, Result<(), String>),
    Chunk(Vec<u8>, bool),
}

trait Cut {
    fn new(max_size: u32, min_chunk: u32) -> Self;
    fn step(&self, buf: &mut BytesMut) -> Result<Option<Item>, String>;
}

macro_rules! impl_cut {
    ($name:ident, $m:path, $set_max:ident) => {
        pub struct $name($m);
        impl Cut for $name {
            fn new(max_size: u32, min_chunk: u32) -> Self {
                use $m as C;
                let c = C::new();
                c.$set_max(max_size);
                c.set_min_chunk_size(min_chunk);
                $name(c)
            }
            fn step(&self, buf: &mut BytesMut) -> Result<Option<Item>, String> {
                use $m as C;
                match self.0.decode(buf) {
                    Err(e) => Err(format!("{e:?}")),
                    Ok(None) => Ok(None),
                    Ok(Some(d)) => Ok(Some(match d {
                        Decoded::Packet(p, size) => {
                            // stability: encode with a fresh codec, decode again
                            let st = (|| {
                                let enc = C::new();
                                let mut pages = ntex_bytes::BytePages::new(ntex_bytes::BytePageSize::Size16);
                                enc.encodev(Encoded::Packet(p.clone()), &mut pages).map_err(|e| format!("re-encode failed: {e:?}"))?;
                                let mut out = BytesMut::from(&pages.freeze()[..]);
                                let dec = C::new();
                                match dec.decode(&mut out) {
                                    Ok(Some(Decoded::Packet(p2, _))) if p2 == p => {
                                        if out.is_empty() { Ok(()) } else { Err(format!("{} bytes left after decoding the re-encoded packet", out.len())) }
                                    }
                                    Ok(Some(Decoded::Packet(p2, _))) => Err(format!("decodes again as {p2:?}")),
                                    Ok(Some(_)) => Err("decodes again as another kind of item".into()),
                                    Ok(None) => Err("re-encoded packet is incomplete".into()),
                                    Err(e) => Err(format!("re-encoded packet is rejected: {e:?}")),
                                }
                            })();
                            Item::Packet(format!("{p:?}"), size, st)
                        }
                        Decoded::Publish(p, first, size) => {
                            let declared = p.payload_size;
                            let st = (|| {
                                // header stability with an empty-payload twin (payload is checked byte-wise elsewhere)
                                let mut twin = p.clone();
                                twin.payload_size = 0;
                                let enc = C::new();
                                let mut pages = ntex_bytes::BytePages::new(ntex_bytes::BytePageSize::Size16);
                                enc.encodev(Encoded::Publish(twin.clone(), Some(ntex_bytes::Bytes::new())), &mut pages).map_err(|e| format!("re-encode failed: {e:?}"))?;
                                let mut out = BytesMut::from(&pages.freeze()[..]);
                                let dec = C::new();
                                match dec.decode(&mut out) {
                                    Ok(Some(Decoded::Publish(p2, _, _))) if p2 == twin => Ok(()),
                                    Ok(Some(Decoded::Publish(p2, _, _))) => Err(format!("decodes again as {p2:?}")),
                                    Ok(Some(_)) => Err("decodes again as another kind of item".into()),
                                    Ok(None) => Err("re-encoded publish is incomplete".into()),
                                    Err(e) => Err(format!("re-encoded publish is rejected: {e:?}")),
                                }
                            })();
                            Item::Publish(format!("{p:?}"), declared, first.to_vec(), size, st)
                        }
                        Decoded::PayloadChunk(b, eof) => Item::Chunk(b.to_vec(), eof),
                    })),
                }
            }
        }
    };
}

mod v3cut {
    use super::*;
    use ntex_mqtt::v3::codec::{Decoded, Encoded};
    impl_cut!(V3, ntex_mqtt::v3::codec::Codec, set_max_size);
}
mod v5cut {
    use super::*;
    use ntex_mqtt::v5::codec::{Decoded, Encoded};
    impl_cut!(V5, ntex_mqtt::v5::codec::Codec, set_max_inbound_size);
}

/// Outcome of feeding a whole stream under one fragmentation.
#[derive(Clone, Debug, Default)]
pub struct Feed {
    pub items: Vec<(usize, Item)>, // (bytes consumed in total when the item was returned, item)
    pub error: Option<(usize, String)>, // (bytes delivered when the error was reported, error)
    pub left: usize,
    pub delivered_at_error: usize,
}

fn feed<C: Cut>(stream: &[u8], cuts: &[usize], max_size: u32, min_chunk: u32) -> Feed {
    let c = C::new(max_size, min_chunk);
    let mut buf = BytesMut::new();
    let mut out = Feed::default();
    let mut delivered = 0usize;
    let mut consumed = 0usize;
    let mut bounds: Vec<usize> = cuts.iter().copied().filter(|x| *x > 0 && *x < stream.len()).collect();
    bounds.push(stream.len());
    bounds.sort_unstable();
    bounds.dedup();
    for b in bounds {
        buf.extend_from_slice(&stream[delivered..b]);
        delivered = b;
        loop {
            let before = buf.len();
            match c.step(&mut buf) {
                Ok(Some(item)) => {
                    consumed += before - buf.len();
                    out.items.push((consumed, item));
                }
                Ok(None) => {
                    consumed += before - buf.len();
                    break;
                }
                Err(e) => {
                    out.error = Some((delivered, e));
                    out.left = buf.len();
                    return out;
                }
            }
        }
    }
    out.left = buf.len();
    out
}

/// Logical packets of a feed: publishes with their pieces merged.
#[derive(Clone, Debug, PartialEq, Eq)]
pub enum Logical {
    Packet(String, u32),
    /// header, declared size, payload received so far, pieces (len, final?), complete?, consumed at completion
    Publish(String, u32, Vec<u8>, Vec<(usize, bool)>, bool),
}

fn logical(f: &Feed) -> Result<Vec<(usize, Logical)>, String> {
    let mut out: Vec<(usize, Logical)> = Vec::new();
    let mut open = false;
    for (consumed, it) in &f.items {
        match it {
            Item::Packet(d, size, _) => {
                if open {
                    return Err(format!("packet {d} returned while a PUBLISH payload was still being delivered"));
                }
                out.push((*consumed, Logical::Packet(d.clone(), *size)));
            }
            Item::Publish(d, declared, first, _size, _) => {
                if open {
                    return Err("a second PUBLISH was announced while a payload was still being delivered".into());
                }
                let complete = first.len() as u32 == *declared;
                if first.len() as u32 > *declared {
                    return Err(format!("PUBLISH announced with {} payload bytes, declared size {declared}", first.len()));
                }
                out.push((*consumed, Logical::Publish(d.clone(), *declared, first.clone(), vec![(first.len(), complete)], complete)));
                open = !complete;
            }
            Item::Chunk(b, eof) => {
                if !open {
                    return Err("payload chunk without a PUBLISH in progress".into());
                }
                let Some((c, Logical::Publish(_, declared, payload, pieces, complete))) = out.last_mut() else {
                    return Err("payload chunk without a PUBLISH".into());
                };
                payload.extend_from_slice(b);
                pieces.push((b.len(), *eof));
                *c = *consumed;
                if payload.len() as u32 > *declared {
                    return Err(format!("payload pieces add up to {} bytes, declared size {declared}", payload.len()));
                }
                if *eof {
                    if payload.len() as u32 != *declared {
                        return Err(format!("final piece delivered after {} of {declared} payload bytes", payload.len()));
                    }
                    *complete = true;
                    open = false;
                } else if payload.len() as u32 == *declared {
                    return Err("all payload bytes delivered but no piece was marked final".into());
                }
            }
        }
    }
    Ok(out)
}

// ---------------------------------------------------------------------------------------------
// stream generation

fn props_of(p: &Pkt) -> Option<&rc::Props> {
    Some(match p {
        Pkt::Publish(x) => &x.props,
        Pkt::Connect(x) => &x.props,
        Pkt::ConnAck(x) => &x.props,
        Pkt::PubAck(x) | Pkt::PubRec(x) | Pkt::PubRel(x) | Pkt::PubComp(x) => &x.props,
        Pkt::Subscribe(x) => &x.props,
        Pkt::Unsubscribe(x) => &x.props,
        Pkt::SubAck(x) | Pkt::UnsubAck(x) => &x.props,
        Pkt::Disconnect(x) | Pkt::Auth(x) => &x.props,
        _ => return None,
    })
}

fn valid_packet(ver: Ver, ch: &mut Choices, i: u32) -> Pkt {
    let mut p = valid_packet_inner(ver, ch, i);
    if ver == Ver::V5 && ch.chance(1, 5) {
        // pad the property section with a User Property to a size at which its length prefix (a
        // variable byte integer) changes width
        if let Some(props) = props_of(&p) {
            let mut tmp = Vec::new();
            rc::put_props(&mut tmp, props);
            let body = (1..=3usize).map(|pre| tmp.len() - pre).find(|b| match *b {
                0..=127 => tmp.len() - *b == 1,
                128..=16383 => tmp.len() - *b == 2,
                _ => tmp.len() - *b == 3,
            });
            let target = *ch.pick(&[127usize, 126, 128, 129, 16_383, 16_382, 16_384, 16_385]);
            if let Some(body) = body
                && target >= body + 6
            {
                add_prop(&mut p, (38, PropVal::Pair("k".into(), "v".repeat(target - body - 6))));
            }
        }
    }
    p
}

fn valid_packet_inner(ver: Ver, ch: &mut Choices, i: u32) -> Pkt {
    match ch.choose(6) {
        0 => {
            let len = *ch.pick(&[0usize, 1, 5, 40, 127, 128, 300, 2000, 20_000]);
            let qos = ch.choose(3) as u8;
            let pid = if qos > 0 { Some(if ch.chance(1, 10) { 65_535 } else { 1 + ch.choose(500) as u16 }) } else { None };
            let mut p = mk_publish(ver, ch, i, qos, pid, len);
            if ch.chance(1, 30) {
                // string lengths at the top of their 16-bit range
                p.topic = "x".repeat(*ch.pick(&[65_535usize, 65_534, 65_533, 65_532, 65_531]));
            }
            Pkt::Publish(p)
        }
        1 => {
            let mut c = rc::Connect::new(ver, "client", 30);
            // user name and password: both, neither, user name only; password only is legal in MQTT 5 (in
            // MQTT 3.1.1 it is not, and is produced as a mutation: whatever a decoder accepts must be stable)
            match ch.choose(4) {
                0 => {
                    c.username = Some("user".into());
                    c.password = Some(vec![1, 2, 3]);
                }
                1 => c.username = Some("user".into()),
                2 if ver == Ver::V5 => c.password = Some(vec![9; 5]),
                _ => {}
            }
            // a Will (QoS, retain, payload; MQTT 5: will properties)
            if ch.chance(1, 3) {
                let mut props = Vec::new();
                if ver == Ver::V5 && ch.chance(1, 2) {
                    props.push((24, PropVal::U32(5)));
                    props.push((1, PropVal::Byte(1)));
                }
                c.will = Some(rc::Will { qos: ch.choose(3) as u8, retain: ch.chance(1, 2), props, topic: "will/t".into(), payload: vec![7; *ch.pick(&[0usize, 3, 200])] });
            }
            if ver == Ver::V5 && ch.chance(1, 2) {
                c.props.push((33, PropVal::U16(10)));
                c.props.push((17, PropVal::U32(60)));
            }
            Pkt::Connect(c)
        }
        2 => {
            let mut props = Vec::new();
            if ver == Ver::V5 && ch.chance(1, 2) {
                props.push((33, PropVal::U16(20)));
                props.push((34, PropVal::U16(5)));
            }
            Pkt::ConnAck(rc::ConnAck { session_present: ch.chance(1, 2), code: 0, props })
        }
        _ => template(ver, ch.chance(1, 2), ch, i),
    }
}

/// Structure-aware mutation of one encoded frame. Returns a description.
fn mutate(ver: Ver, ch: &mut Choices, frame: &mut Vec<u8>, pkt: &Pkt) -> String {
    let v5 = ver == Ver::V5;
    let hdr = rc::fixed_header(frame).ok().flatten();
    let (first, rem, hl) = hdr.unwrap_or((frame[0], 0, 2.min(frame.len())));
    // (MQTT 5 packets that carry once-only properties get a property mutation more often than the uniform draw)
    let m = if v5 && matches!(pkt, Pkt::Subscribe(_) | Pkt::Connect(_) | Pkt::ConnAck(_) | Pkt::Publish(_)) && ch.chance(1, 6) {
        8
    } else if matches!(pkt, Pkt::Connect(_)) && ch.chance(1, 5) {
        13
    } else {
        ch.choose(13)
    };
    match m {
        13 => {
            // CONNECT flag combinations a well-behaved encoder does not produce: a password without a user
            // name, a Will QoS / Will retain without a Will
            let Pkt::Connect(c) = pkt else { return "none".into() };
            let mut c = c.clone();
            match ch.choose(2) {
                0 => {
                    c.username = None;
                    c.password = Some(vec![5; 1 + ch.choose(6) as usize]);
                    *frame = rc::encode(ver, &Pkt::Connect(c));
                    "CONNECT with a password and no user name".into()
                }
                _ => {
                    c.will = None;
                    *frame = rc::encode(ver, &Pkt::Connect(c));
                    // flags byte: fixed header, protocol name (2 + n), level
                    let off = hl + 2 + 4 + 1;
                    if frame.len() > off {
                        frame[off] |= *ch.pick(&[0x08u8, 0x10, 0x20]);
                    }
                    "CONNECT with Will QoS / retain flags and no Will".into()
                }
            }
        }
        12 => {
            // the body cut after k bytes with a Remaining Length that says exactly k: a frame that is
            // consistent on the outside and too short on the inside, at every possible length
            let k = ch.choose(rem as u32 + 1) as usize;
            let mut out = vec![first];
            rc::put_varint(&mut out, k as u32);
            out.extend_from_slice(&frame[hl..(hl + k).min(frame.len())]);
            *frame = out;
            format!("body cut to {k} of {rem} bytes, remaining length := {k}")
        }
        0 => {
            // remaining length inflated / deflated
            let d = 1 + ch.choose(3) as usize;
            let new = if ch.chance(1, 2) { rem + d } else { rem.saturating_sub(d) };
            let mut out = vec![first];
            rc::put_varint(&mut out, new as u32);
            out.extend_from_slice(&frame[hl..]);
            *frame = out;
            format!("remaining length {rem} -> {new}")
        }
        1 => {
            let k = ch.choose(frame.len() as u32) as usize;
            frame.truncate(k.max(1));
            format!("truncated to {} bytes", frame.len())
        }
        2 => {
            let i = ch.choose(frame.len() as u32) as usize;
            let bit = 1u8 << ch.choose(8);
            frame[i] ^= bit;
            format!("bit flip at {i} (mask {bit:#04x})")
        }
        3 => {
            let i = ch.choose(frame.len() as u32) as usize;
            let val = *ch.pick(&[0x00u8, 0xff, 0x80, 0x7f, 0xc0]);
            frame[i] = val;
            format!("byte {i} := {val:#04x}")
        }
        4 => {
            // an inner two-byte length: pick an offset in the body, add a delta
            if frame.len() >= hl + 2 {
                let i = hl + ch.choose((frame.len() - hl - 1) as u32) as usize;
                let v = u16::from_be_bytes([frame[i], frame[i + 1]]);
                let nv = if ch.chance(1, 2) { v.wrapping_add(1 + ch.choose(3) as u16) } else { v.wrapping_sub(1 + ch.choose(3) as u16) };
                frame[i..i + 2].copy_from_slice(&nv.to_be_bytes());
                format!("u16 at {i}: {v} -> {nv}")
            } else {
                "none".into()
            }
        }
        5 => {
            frame[0] |= 0x06;
            "QoS bits := 3".into()
        }
        6 => {
            // zero packet identifier
            match pkt {
                Pkt::PubAck(_) | Pkt::PubRec(_) | Pkt::PubRel(_) | Pkt::PubComp(_) | Pkt::Subscribe(_) | Pkt::SubAck(_) | Pkt::Unsubscribe(_) | Pkt::UnsubAck(_) if frame.len() >= hl + 2 => {
                    frame[hl] = 0;
                    frame[hl + 1] = 0;
                    "packet id := 0".into()
                }
                Pkt::Publish(p) if p.qos > 0 => {
                    let off = hl + 2 + p.topic.len();
                    if frame.len() >= off + 2 {
                        frame[off] = 0;
                        frame[off + 1] = 0;
                    }
                    "packet id := 0".into()
                }
                _ => "none".into(),
            }
        }
        7 => {
            // invalid UTF-8 inside the first string of the body
            if frame.len() > hl + 2 {
                let l = u16::from_be_bytes([frame[hl], frame[hl + 1]]) as usize;
                if l > 0 && frame.len() >= hl + 2 + l {
                    let i = hl + 2 + ch.choose(l as u32) as usize;
                    frame[i] = *ch.pick(&[0xffu8, 0xc0, 0x80]);
                    return format!("invalid UTF-8 byte at {i}");
                }
            }
            "none".into()
        }
        8 if v5 => {
            // unknown property id / duplicate once-only property / unknown reason code
            let m = match ch.weighted(&[1, 2, 1]) {
                0 => {
                    let mut p = pkt.clone();
                    add_prop(&mut p, (0x7e, PropVal::Byte(1)));
                    *frame = rc::encode(ver, &p);
                    "unknown property 0x7e"
                }
                1 => {
                    let mut p = pkt.clone();
                    // (which property, and whether either occurrence carries the value 0 - "absent" and "zero"
                    // must not be confused by the once-only guard)
                    let (z1, z2) = (ch.chance(1, 3), ch.chance(1, 3));
                    let val16 = |z: bool, x: u16| PropVal::U16(if z { 0 } else { x });
                    let val32 = |z: bool, x: u32| PropVal::U32(if z { 0 } else { x });
                    let k = ch.choose(3);
                    let (d1, d2) = match &p {
                        Pkt::Publish(_) => match k {
                            0 => ((1u8, PropVal::Byte(if z1 { 0 } else { 1 })), (1u8, PropVal::Byte(if z2 { 0 } else { 1 }))),
                            1 => ((35u8, val16(z1, 3)), (35u8, val16(z2, 4))),
                            _ => ((2u8, val32(z1, 7)), (2u8, val32(z2, 8))),
                        },
                        Pkt::Connect(_) => match k {
                            0 => ((17u8, val32(z1, 5)), (17u8, val32(z2, 6))),
                            1 => ((33u8, val16(z1, 3)), (33u8, val16(z2, 4))),
                            _ => ((39u8, val32(z1, 900)), (39u8, val32(z2, 901))),
                        },
                        Pkt::ConnAck(_) => match k {
                            0 => ((33u8, val16(z1, 3)), (33u8, val16(z2, 4))),
                            1 => ((34u8, val16(z1, 3)), (34u8, val16(z2, 4))),
                            _ => ((39u8, val32(z1, 900)), (39u8, val32(z2, 901))),
                        },
                        Pkt::Subscribe(_) => ((11u8, PropVal::VarInt(if z1 { 0 } else { 5 })), (11u8, PropVal::VarInt(if z2 { 0 } else { 6 }))),
                        _ => ((31u8, PropVal::Str("r".into())), (31u8, PropVal::Str("r".into()))),
                    };
                    add_prop(&mut p, d1);
                    add_prop(&mut p, d2);
                    *frame = rc::encode(ver, &p);
                    "once-only property twice"
                }
                _ => {
                    let mut p = pkt.clone();
                    match &mut p {
                        Pkt::PubAck(a) | Pkt::PubRec(a) | Pkt::PubRel(a) | Pkt::PubComp(a) => a.code = 0x05,
                        Pkt::Disconnect(d) | Pkt::Auth(d) => d.code = 0x05,
                        Pkt::ConnAck(c) => c.code = 0x05,
                        _ => {}
                    }
                    *frame = rc::encode_opts(ver, &p, true);
                    "unknown reason code 0x05"
                }
            };
            m.into()
        }
        9 => {
            // splice: the head of this frame followed by another packet
            let k = 1 + ch.choose(frame.len() as u32 - 1).min(frame.len() as u32 - 1) as usize;
            frame.truncate(k);
            frame.extend_from_slice(&rc::encode(ver, &Pkt::PingReq));
            format!("spliced after {k} bytes")
        }
        10 => {
            // fixed-header flag bits
            frame[0] ^= 1 << ch.choose(4);
            "fixed header flag bit flipped".into()
        }
        _ => "none".into(),
    }
}

fn add_prop(p: &mut Pkt, prop: (u8, PropVal)) {
    match p {
        Pkt::Publish(x) => x.props.push(prop),
        Pkt::Connect(x) => x.props.push(prop),
        Pkt::ConnAck(x) => x.props.push(prop),
        Pkt::PubAck(x) | Pkt::PubRec(x) | Pkt::PubRel(x) | Pkt::PubComp(x) => x.props.push(prop),
        Pkt::Subscribe(x) => x.props.push(prop),
        Pkt::Unsubscribe(x) => x.props.push(prop),
        Pkt::SubAck(x) | Pkt::UnsubAck(x) => x.props.push(prop),
        Pkt::Disconnect(x) | Pkt::Auth(x) => x.props.push(prop),
        _ => {}
    }
}

fn random_cuts(ch: &mut Choices, len: usize) -> Vec<usize> {
    if len <= 1 {
        return Vec::new();
    }
    match ch.choose(5) {
        0 => Vec::new(),                             // one read
        1 if len <= 4096 => (1..len).collect(),      // byte at a time
        2 => {
            // around every packet/field boundary is approximated by dense cuts near the start
            (1..len.min(24)).collect()
        }
        _ => {
            let n = 1 + ch.choose(8) as usize;
            (0..n).map(|_| 1 + ch.choose(len as u32 - 1) as usize).collect()
        }
    }
}

// ---------------------------------------------------------------------------------------------
// one run

struct Ctx {
    hist: Vec<Event>,
    viol: Vec<Violation>,
    seq: u64,
}

impl Ctx {
    fn note(&mut self, s: String) {
        self.seq += 1;
        self.hist.push(Event { seq: self.seq, t_ms: 0, ev: Ev::Note { what: s } });
    }
    fn viol(&mut self, prop: &'static str, key: String, msg: String) {
        let at = self.seq;
        self.viol.push(Violation { prop, key, msg, at_seq: at });
    }
}

fn hex(b: &[u8]) -> String {
    let mut s = String::new();
    for x in b.iter().take(96) {
        s.push_str(&format!("{x:02x}"));
    }
    if b.len() > 96 {
        s.push_str(&format!("..({} B)", b.len()));
    }
    s
}

thread_local! {
    static LOG: std::cell::RefCell<Vec<u32>> = const { std::cell::RefCell::new(Vec::new()) };
}

/// Choice log of the run that panicked on this thread (the Choices object is lost with the unwind).
pub fn take_log() -> Vec<u32> {
    LOG.with(|l| l.borrow().clone())
}

fn sync_log(ch: &Choices) {
    LOG.with(|l| *l.borrow_mut() = ch.log.clone());
}

pub fn run(family: Family, mut ch: Choices) -> RunOut {
    let ver = if ch.chance(1, 2) { Ver::V3 } else { Ver::V5 };
    let role = if ver == Ver::V3 { Role::S3 } else { Role::S5 };
    let fam: &'static str = if family == Family::C02 { "C02" } else { "C10" };
    let vn = if ver == Ver::V3 { "v3" } else { "v5" };
    let mut plan = base_plan(fam, role, &mut ch);
    let mut cx = Ctx { hist: Vec::new(), viol: Vec::new(), seq: 0 };

    // configuration
    let min_chunk = *ch.pick(&[0u32, 1, 4, 1024, 32 * 1024]);
    // (inbound maximum: none, ordinary values, and values of a few bytes - smaller than a fixed header, or
    // exactly the Remaining Length of the small packets of the stream: a frame AT the limit is accepted)
    let max_size = if family != Family::C02 {
        0
    } else if ch.chance(1, 6) {
        *ch.pick(&[1u32, 2, 3, 4, 5, 7, 12, 20])
    } else {
        *ch.pick(&[0u32, 0, 64, 300])
    };
    plan.cfg.min_chunk = min_chunk;
    plan.cfg.max_size = max_size;
    cx.note(format!("codec {vn} min_chunk={min_chunk} max_size={max_size}"));

    // the stream
    let n = 1 + ch.choose(4);
    let mut stream: Vec<u8> = Vec::new();
    let mut frames: Vec<(usize, usize)> = Vec::new(); // (start, len) of every frame as generated
    let mut mutated: Option<usize> = None;
    let short_random = family == Family::C02 && ch.chance(1, 8);
    if short_random {
        let l = ch.choose(7) as usize;
        for _ in 0..l {
            stream.push(ch.choose(256) as u8);
        }
        cx.note(format!("random bytes {}", hex(&stream)));
    } else {
        let mutate_at = if family == Family::C02 && ch.chance(5, 6) { Some(ch.choose(n)) } else { None };
        for i in 0..n {
            let pkt = valid_packet(ver, &mut ch, i);
            let mut bytes = rc::encode_opts(ver, &pkt, ver == Ver::V5 && ch.chance(1, 4));
            let mut what = String::new();
            if mutate_at == Some(i) {
                what = mutate(ver, &mut ch, &mut bytes, &pkt);
                mutated = Some(i as usize);
            }
            cx.note(format!("frame {i}: {} {}{}", pkt.brief(), if what.is_empty() { String::new() } else { format!("[mutation: {what}] ") }, hex(&bytes)));
            frames.push((stream.len(), bytes.len()));
            stream.extend_from_slice(&bytes);
        }
    }
    if family == Family::C02 {
        // a sentinel every decoder accepts: whatever precedes it must not eat into it
        frames.push((stream.len(), 2));
        stream.extend_from_slice(&[0xc0, 0x00]);
    }

    // reference reading of the stream: frame by frame with the strict independent decoder
    let mut refs: Vec<(usize, usize, Result<Pkt, rc::Malformed>)> = Vec::new();
    let mut ref_stop: &'static str = "end";
    {
        let mut off = 0usize;
        while off < stream.len() {
            match rc::decode_stream(ver, &stream[off..]) {
                Frame::Incomplete => {
                    ref_stop = "incomplete";
                    break;
                }
                Frame::BadHeader => {
                    ref_stop = "bad-header";
                    break;
                }
                Frame::Complete { len, pkt } => {
                    let bad = pkt.is_err();
                    refs.push((off, len, pkt));
                    off += len;
                    if bad {
                        ref_stop = "malformed";
                        break;
                    }
                }
            }
        }
    }

    sync_log(&ch);
    let run_feed = |cuts: &[usize]| -> Feed {
        if ver == Ver::V3 { feed::<v3cut::V3>(&stream, cuts, max_size, min_chunk) } else { feed::<v5cut::V5>(&stream, cuts, max_size, min_chunk) }
    };

    // one-shot reading, then other fragmentations
    let base = run_feed(&[]);
    let base_log = logical(&base);
    cx.note(format!("one read: {} items, error {:?}, {} bytes left", base.items.len(), base.error.as_ref().map(|e| &e.1), base.left));
    if let Err(e) = &base_log {
        cx.viol(if family == Family::C02 { "C02" } else { "C10" }, format!("{fam}/inconsistent-items/{vn}"), format!("one read: {e}"));
    }

    // ---- per-item checks on the one-shot reading
    for (_, it) in &base.items {
        let st = match it {
            Item::Packet(d, _, st) | Item::Publish(d, _, _, _, st) => Some((d, st)),
            Item::Chunk(..) => None,
        };
        if let Some((d, Err(e))) = st {
            cx.viol("C02", format!("C02/unstable/{vn}/{}", d.split(['(', ' ', '{']).next().unwrap_or("?")), format!("{d}: {e}"));
        }
    }
    if let Ok(bl) = &base_log {
        // consumption: each complete logical packet ends exactly at a frame boundary of the stream
        let mut expect_end = 0usize;
        let mut walk = 0usize;
        for (consumed, lg) in bl {
            // the frame this item came from, by walking fixed headers of the actual stream
            let Ok(Some((_, rem, hl))) = rc::fixed_header(&stream[walk..]) else { break };
            expect_end = walk + hl + rem;
            let complete = match lg {
                Logical::Packet(..) => true,
                Logical::Publish(_, _, _, _, c) => *c,
            };
            if complete && *consumed != expect_end {
                cx.viol(
                    "C02",
                    format!("C02/consumed-beyond-frame/{vn}"),
                    format!("item {lg:?} returned with {consumed} bytes consumed, its frame ends at {expect_end}"),
                );
                break;
            }
            if !complete {
                break;
            }
            walk = expect_end;
        }
        let _ = expect_end;

        // must-reject classes, judged by the independent strict decoder
        for (k, (off, len, r)) in refs.iter().enumerate() {
            if let Err(m) = r {
                if m.must_reject() && bl.len() > k {
                    let accepted = match &bl[k].1 {
                        Logical::Packet(d, _) => d.clone(),
                        Logical::Publish(d, ..) => d.clone(),
                    };
                    cx.viol(
                        "C02",
                        format!("C02/accepted-malformed/{vn}/{}/{}", m.class(), pkt_kind(stream[*off])),
                        format!("frame {} ({} bytes at {off}) is malformed ({m:?}) but was decoded as {accepted}", hex(&stream[*off..off + len]), len),
                    );
                }
                break;
            }
        }
        // valid streams decode completely and to the same packets (C10; also the sentinel of C02 runs)
        let fits = max_size == 0 || frames.iter().all(|(off, _)| matches!(rc::fixed_header(&stream[*off..]), Ok(Some((_, rem, _))) if rem as u32 <= max_size));
        if mutated.is_none() && !short_random && ref_stop == "end" && fits {
            if base.error.is_some() || bl.len() != refs.len() {
                cx.viol(
                    "C10",
                    format!("C10/valid-stream-not-decoded/{vn}"),
                    format!("a stream of {} valid packets decoded into {} packets, error {:?}", refs.len(), bl.len(), base.error),
                );
            }
        }
    }
    // over-long frame: refused on the fixed header alone
    if max_size != 0 && !short_random {
        // (frame boundaries as the stream really has them after the mutation: walk them with the reference decoder)
        let mut bounds: Vec<usize> = refs.iter().filter(|r| r.2.is_ok()).map(|r| r.0 + r.1).collect();
        bounds.insert(0, 0);
        bounds.retain(|b| *b < stream.len() && refs.iter().take_while(|r| r.0 < *b).all(|r| r.2.is_ok()));
        for off in &bounds {
            if let Ok(Some((_, rem, hl))) = rc::fixed_header(&stream[*off..]) {
                if rem as u32 > max_size {
                    // deliver everything before the frame, then only its fixed header
                    let upto = off + hl;
                    let f = if ver == Ver::V3 { feed::<v3cut::V3>(&stream[..upto], &[], max_size, min_chunk) } else { feed::<v5cut::V5>(&stream[..upto], &[], max_size, min_chunk) };
                    // earlier frames may have failed already (mutation): only judge when they did not
                    let earlier_ok = refs.iter().take_while(|r| r.0 < *off).all(|r| r.2.is_ok());
                    if earlier_ok && f.error.is_none() {
                        cx.viol(
                            "C02",
                            format!("C02/oversize-not-rejected-on-header/{vn}"),
                            format!("frame at {off} declares {rem} bytes, inbound maximum {max_size}: no error after its fixed header had been delivered"),
                        );
                    }
                    break;
                }
            }
        }
    }

    // ---- fragmentation independence
    let n_frag = 2 + ch.choose(3);
    let mut cut_sets: Vec<Vec<usize>> = (0..n_frag).map(|_| random_cuts(&mut ch, stream.len())).collect();
    // short streams, one run in six: EVERY way of cutting the stream into two reads, and (up to 40 bytes)
    // into three reads
    let enumerate_cuts = stream.len() >= 2 && stream.len() <= 160 && ch.chance(1, 6);
    if enumerate_cuts {
        for a in 1..stream.len() {
            cut_sets.push(vec![a]);
        }
        if stream.len() <= 40 {
            for a in 1..stream.len() {
                for b in (a + 1)..stream.len() {
                    cut_sets.push(vec![a, b]);
                }
            }
        }
        cx.note(format!("all cuts into two{} reads enumerated: {} fragmentations", if stream.len() <= 40 { " and three" } else { "" }, cut_sets.len() - n_frag as usize));
    }
    sync_log(&ch);
    for (fi, cuts) in cut_sets.iter().enumerate() {
        if !cx.viol.is_empty() && fi >= n_frag as usize {
            break;
        }
        let cuts = cuts.clone();
        let f = run_feed(&cuts);
        let fl = logical(&f);
        let prop: &'static str = if family == Family::C02 { "C02" } else { "C10" };
        match (&base_log, &fl) {
            (_, Err(e)) => {
                cx.viol(prop, format!("{fam}/inconsistent-items/{vn}"), format!("fragmentation {fi} ({} cuts): {e}", cuts.len()));
                continue;
            }
            (Err(_), _) => continue,
            (Ok(a), Ok(b)) => {
                let strip = |v: &Vec<(usize, Logical)>| -> Vec<Logical> {
                    v.iter()
                        .map(|(_, l)| match l {
                            // (how much of an unfinished payload has been handed over so far may differ: the
                            // rest is "need more data")
                            Logical::Publish(d, s, p, _, c) => Logical::Publish(d.clone(), *s, if *c { p.clone() } else { Vec::new() }, Vec::new(), *c),
                            x => x.clone(),
                        })
                        .collect()
                };
                let (sa, sb) = (strip(a), strip(b));
                if sa != sb || base.error.is_some() != f.error.is_some() {
                    let k = sa.iter().zip(sb.iter()).position(|(x, y)| x != y).unwrap_or(sa.len().min(sb.len()));
                    cx.viol(
                        prop,
                        format!("{fam}/fragmentation-dependent/{vn}"),
                        format!(
                            "one read gives {} packets (error {:?}), fragmentation {fi} (cuts {:?}) gives {} packets (error {:?}); first difference at packet {k}: {} vs {}",
                            sa.len(),
                            base.error.as_ref().map(|e| &e.1),
                            &cuts[..cuts.len().min(12)],
                            sb.len(),
                            f.error.as_ref().map(|e| &e.1),
                            sa.get(k).map_or("-".to_string(), brief_logical),
                            sb.get(k).map_or("-".to_string(), brief_logical)
                        ),
                    );
                }
                // piece rules (C10)
                for (_, l) in b {
                    if let Logical::Publish(d, declared, payload, pieces, complete) = l {
                        let finals = pieces.iter().filter(|p| p.1).count();
                        if *complete && finals != 1 {
                            cx.viol("C10", format!("C10/final-piece-count/{vn}"), format!("{d}: {finals} pieces marked final"));
                        }
                        if *complete && payload.len() as u32 != *declared {
                            cx.viol("C10", format!("C10/pieces-do-not-add-up/{vn}"), format!("{d}: pieces add up to {}, declared {declared}", payload.len()));
                        }
                        if min_chunk > 1 {
                            for (i, (len, fin)) in pieces.iter().enumerate() {
                                if !fin && *len != 0 && (*len as u32) < min_chunk {
                                    cx.viol(
                                        "C10",
                                        format!("C10/piece-below-minimum/{vn}"),
                                        format!("{d}: piece {i} of {} has {len} bytes, minimum chunk size {min_chunk} (pieces {:?})", pieces.len(), &pieces[..pieces.len().min(8)]),
                                    );
                                    break;
                                }
                            }
                        }
                    }
                }
            }
        }
    }

    // digest / signature
    let mut dig = Fnv::default();
    let mut sig = Fnv::default();
    for e in &cx.hist {
        dig.write_str(&format!("{:?}", e.ev));
    }
    sig.write_str(vn);
    sig.write_u64(u64::from(min_chunk));
    sig.write_u64(u64::from(max_size));
    sig.write_str(&format!("{:?}", base.items.iter().map(|i| std::mem::discriminant(&i.1)).collect::<Vec<_>>()));
    sig.write_str(&format!("{:?}", base.error.as_ref().map(|e| e.1.split('(').next().unwrap_or("").to_string())));
    sig.write_u64(stream.len() as u64);
    let mut stats = Stats::default();
    stats.steps = cx.seq;
    *stats.faults.entry("frag").or_insert(0) += cut_sets.len() as u64;
    if enumerate_cuts {
        *stats.probes.entry("all-cuts-enumerated").or_insert(0) += 1;
    }
    if mutated.is_some() {
        *stats.faults.entry("mutation").or_insert(0) += 1;
    }
    RunOut {
        plan,
        hist: cx.hist,
        stats,
        choices: ch.log.clone(),
        clamped: ch.clamped,
        panic: None,
        budget_hit: false,
        conn_done: Vec::new(),
        gates: Vec::new(),
        senders: Vec::new(),
        peers: Vec::new(),
        setup_error: None,
        digest: dig.0,
        signature: sig.0,
        runnable_left: 0,
        armed_left: 0,
        pre_violations: cx.viol,
    }
}

fn brief_logical(l: &Logical) -> String {
    match l {
        Logical::Packet(d, s) => format!("{} (size {s})", &d[..d.len().min(80)]),
        Logical::Publish(d, decl, p, _, c) => format!("{} declared {decl} got {} complete {c}", &d[..d.len().min(80)], p.len()),
    }
}

fn pkt_kind(first: u8) -> &'static str {
    match first >> 4 {
        1 => "CONNECT",
        2 => "CONNACK",
        3 => "PUBLISH",
        4 => "PUBACK",
        5 => "PUBREC",
        6 => "PUBREL",
        7 => "PUBCOMP",
        8 => "SUBSCRIBE",
        9 => "SUBACK",
        10 => "UNSUBSCRIBE",
        11 => "UNSUBACK",
        12 => "PINGREQ",
        13 => "PINGRESP",
        14 => "DISCONNECT",
        15 => "AUTH",
        _ => "RESERVED",
    }
}
