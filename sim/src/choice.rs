//! The choice stream: every decision of a run (workload, schedule, faults) is one bounded
//! integer drawn here. Search mode draws from the PRNG and records; replay mode reads a
//! recorded list and yields 0 ("the simplest alternative") when it is exhausted.
use crate::rng::Rng;

pub struct Choices {
    rng: Option<Rng>,
    replay: Vec<u32>,
    pos: usize,
    pub log: Vec<u32>,
    /// number of draws that had to be clamped during replay (value out of range)
    pub clamped: u64,
}

impl Choices {
    pub fn search(seed: u64) -> Choices {
        Choices { rng: Some(Rng::new(seed)), replay: Vec::new(), pos: 0, log: Vec::new(), clamped: 0 }
    }

    pub fn replay(list: Vec<u32>) -> Choices {
        Choices { rng: None, replay: list, pos: 0, log: Vec::new(), clamped: 0 }
    }

    /// Replay `prefix`, then continue with fresh draws from `seed`.
    pub fn replay_then_search(prefix: Vec<u32>, seed: u64) -> Choices {
        Choices { rng: Some(Rng::new(seed)), replay: prefix, pos: 0, log: Vec::new(), clamped: 0 }
    }

    pub fn draws(&self) -> usize {
        self.log.len()
    }

    /// 0..n-1, 0 is the simplest alternative. n == 1 draws nothing.
    pub fn choose(&mut self, n: u32) -> u32 {
        assert!(n >= 1, "choose(0)");
        if n == 1 {
            return 0;
        }
        let v = if self.pos < self.replay.len() {
            let mut v = self.replay[self.pos];
            self.pos += 1;
            if v >= n {
                self.clamped += 1;
                v %= n;
            }
            v
        } else if let Some(rng) = self.rng.as_mut() {
            rng.below(u64::from(n)) as u32
        } else {
            0
        };
        self.log.push(v);
        v
    }

    /// Pick an index with the given weights (zero-weight entries are never picked).
    /// The recorded value is the index among the non-zero entries, so index 0 stays "simplest".
    pub fn weighted(&mut self, weights: &[u32]) -> usize {
        let nz: Vec<usize> = (0..weights.len()).filter(|i| weights[*i] > 0).collect();
        assert!(!nz.is_empty(), "weighted(): no enabled alternative");
        if nz.len() == 1 {
            return nz[0];
        }
        let k = if self.pos < self.replay.len() {
            let mut v = self.replay[self.pos] as usize;
            self.pos += 1;
            if v >= nz.len() {
                self.clamped += 1;
                v %= nz.len();
            }
            v
        } else if let Some(rng) = self.rng.as_mut() {
            let total: u64 = nz.iter().map(|i| u64::from(weights[*i])).sum();
            let mut r = rng.below(total);
            let mut k = 0;
            for (j, i) in nz.iter().enumerate() {
                let w = u64::from(weights[*i]);
                if r < w {
                    k = j;
                    break;
                }
                r -= w;
            }
            k
        } else {
            0
        };
        self.log.push(k as u32);
        nz[k]
    }

    /// true with probability num/den; false is the simple alternative.
    pub fn chance(&mut self, num: u32, den: u32) -> bool {
        if num == 0 {
            return false;
        }
        if num >= den {
            return true;
        }
        self.weighted(&[den - num, num]) == 1
    }

    /// lo..=hi, lo is simplest.
    pub fn range(&mut self, lo: u32, hi: u32) -> u32 {
        lo + self.choose(hi - lo + 1)
    }

    /// Pick one element of a non-empty slice; the first is the simplest.
    pub fn pick<'a, T>(&mut self, items: &'a [T]) -> &'a T {
        &items[self.choose(items.len() as u32) as usize]
    }
}
