//! `SimStream`: the transport stub. It implements `ntex_io::IoStream` exactly the way
//! `ntex_io::testing::IoTest` does (one io task doing reads and writes through `IoContext`),
//! but every byte movement, stall, FIN, RST and write error is decided by the simulator
//! through the shared `Wire`.
use std::task::{Context, Poll, Waker};
use std::{any, cell::RefCell, collections::VecDeque, future::poll_fn, io, rc::Rc};

use ntex_bytes::{BufMut, BytePages, BytesMut};
use ntex_io::{Handle, IoContext, IoStream, IoTaskStatus, Readiness};

#[derive(Clone, Copy, Debug, PartialEq, Eq)]
pub enum RdState {
    Open,
    /// peer half-closed: read returns 0 once `arrived` is drained
    Fin,
    /// read returns an io error once `arrived` is drained
    Err,
}

#[derive(Debug)]
pub struct WireState {
    /// bytes the peer has sent that are still "on the wire" (not yet readable)
    pub inflight: VecDeque<u8>,
    /// bytes delivered to the endpoint's socket, readable now
    pub arrived: VecDeque<u8>,
    pub rd_state: RdState,
    /// rd_state change is itself "on the wire": applied when inflight is empty
    pub rd_pending: RdState,
    pub rd_waker: Option<Waker>,
    /// everything the endpoint has written, cumulative
    pub out: Vec<u8>,
    /// None: the socket accepts everything; Some(n): n more bytes, then Pending
    pub wr_cap: Option<usize>,
    /// next write fails with an io error
    pub wr_err: bool,
    pub wr_waker: Option<Waker>,
    /// the endpoint shut down its write side (graceful) or stopped
    pub ep_closed: bool,
    /// the endpoint dropped the stream object
    pub ep_dropped: bool,
    pub delivered_total: usize,
    pub wr_pending_polls: u64,
    /// the write that would take the output beyond this many bytes in total is cut there, and the
    /// next one fails with an io error (connection loss at an arbitrary byte of the output)
    pub wr_err_after: Option<usize>,
    /// set when `wr_err_after` fired; the driver turns it into a fault event
    pub wr_err_fired: Option<usize>,
}

#[derive(Clone, Debug)]
pub struct Wire(pub Rc<RefCell<WireState>>);

impl Default for Wire {
    fn default() -> Self {
        Wire::new()
    }
}

impl Wire {
    pub fn new() -> Wire {
        Wire(Rc::new(RefCell::new(WireState {
            inflight: VecDeque::new(),
            arrived: VecDeque::new(),
            rd_state: RdState::Open,
            rd_pending: RdState::Open,
            rd_waker: None,
            out: Vec::new(),
            wr_cap: None,
            wr_err: false,
            wr_waker: None,
            ep_closed: false,
            ep_dropped: false,
            delivered_total: 0,
            wr_pending_polls: 0,
            wr_err_after: None,
            wr_err_fired: None,
        })))
    }

    pub fn stream(&self) -> SimStream {
        SimStream { wire: self.clone() }
    }

    /// peer -> wire
    pub fn peer_send(&self, bytes: &[u8]) {
        self.0.borrow_mut().inflight.extend(bytes.iter().copied());
    }

    /// wire -> endpoint socket: move up to `n` bytes, wake the reader.
    pub fn deliver(&self, n: usize) -> usize {
        let waker = {
            let mut w = self.0.borrow_mut();
            let n = n.min(w.inflight.len());
            for _ in 0..n {
                let b = w.inflight.pop_front().unwrap();
                w.arrived.push_back(b);
            }
            w.delivered_total += n;
            if w.inflight.is_empty() && w.rd_pending != RdState::Open {
                w.rd_state = w.rd_pending;
            }
            (n, w.rd_waker.take())
        };
        if let Some(wk) = waker.1 {
            wk.wake();
        }
        waker.0
    }

    /// peer closes (FIN) / resets (Err) after everything already sent has been delivered
    pub fn peer_close(&self, st: RdState) {
        let waker = {
            let mut w = self.0.borrow_mut();
            w.rd_pending = st;
            if w.inflight.is_empty() {
                w.rd_state = st;
                w.rd_waker.take()
            } else {
                None
            }
        };
        if let Some(wk) = waker {
            wk.wake();
        }
    }

    /// the connection is lost at this byte: what is still on the wire never arrives
    pub fn cut_and_close(&self, st: RdState) {
        let waker = {
            let mut w = self.0.borrow_mut();
            w.inflight.clear();
            w.rd_pending = st;
            w.rd_state = st;
            w.rd_waker.take()
        };
        if let Some(wk) = waker {
            wk.wake();
        }
    }

    pub fn set_wr_cap(&self, cap: Option<usize>) {
        let waker = {
            let mut w = self.0.borrow_mut();
            w.wr_cap = cap;
            w.wr_waker.take()
        };
        if let Some(wk) = waker {
            wk.wake();
        }
    }

    pub fn grant(&self, n: usize) {
        let waker = {
            let mut w = self.0.borrow_mut();
            if let Some(c) = w.wr_cap.as_mut() {
                *c += n;
            }
            w.wr_waker.take()
        };
        if let Some(wk) = waker {
            wk.wake();
        }
    }

    pub fn set_wr_err(&self) {
        let waker = {
            let mut w = self.0.borrow_mut();
            w.wr_err = true;
            w.wr_waker.take()
        };
        if let Some(wk) = waker {
            wk.wake();
        }
    }

    /// wake reader and writer without cause
    pub fn spurious_wake(&self) {
        let (a, b) = {
            let mut w = self.0.borrow_mut();
            (w.rd_waker.take(), w.wr_waker.take())
        };
        if let Some(w) = a {
            w.wake();
        }
        if let Some(w) = b {
            w.wake();
        }
    }

    pub fn out_len(&self) -> usize {
        self.0.borrow().out.len()
    }
    pub fn inflight_len(&self) -> usize {
        self.0.borrow().inflight.len()
    }
    pub fn arrived_len(&self) -> usize {
        self.0.borrow().arrived.len()
    }
    pub fn ep_closed(&self) -> bool {
        let w = self.0.borrow();
        w.ep_closed || w.ep_dropped
    }
    pub fn wr_blocked(&self) -> bool {
        let w = self.0.borrow();
        w.wr_cap == Some(0) && w.wr_waker.is_some()
    }
}

#[derive(Debug)]
pub struct SimStream {
    wire: Wire,
}

impl Drop for SimStream {
    fn drop(&mut self) {
        self.wire.0.borrow_mut().ep_dropped = true;
    }
}

impl SimStream {
    fn poll_read_buf(&self, cx: &mut Context<'_>, buf: &mut BytesMut) -> Poll<io::Result<usize>> {
        let mut w = self.wire.0.borrow_mut();
        w.rd_waker = Some(cx.waker().clone());
        if !w.arrived.is_empty() {
            let size = std::cmp::min(w.arrived.len(), buf.remaining_mut());
            assert!(size > 0, "Supplied buffer is zero sized");
            let (a, b) = w.arrived.as_slices();
            if size <= a.len() {
                buf.put_slice(&a[..size]);
            } else {
                buf.put_slice(a);
                buf.put_slice(&b[..size - a.len()]);
            }
            w.arrived.drain(..size);
            return Poll::Ready(Ok(size));
        }
        match w.rd_state {
            RdState::Open => Poll::Pending,
            RdState::Fin => Poll::Ready(Ok(0)),
            RdState::Err => {
                // one-shot, like a socket error
                w.rd_state = RdState::Fin;
                Poll::Ready(Err(io::Error::new(io::ErrorKind::ConnectionReset, "sim: connection reset")))
            }
        }
    }

    fn poll_write_buf(&self, cx: &mut Context<'_>, buf: &[u8]) -> Poll<io::Result<usize>> {
        let mut w = self.wire.0.borrow_mut();
        if w.wr_err {
            w.wr_err = false;
            return Poll::Ready(Err(io::Error::new(io::ErrorKind::BrokenPipe, "sim: write error")));
        }
        let mut n = match w.wr_cap {
            None => buf.len(),
            Some(c) => c.min(buf.len()),
        };
        if let Some(m) = w.wr_err_after {
            let room = m.saturating_sub(w.out.len());
            if room == 0 {
                w.wr_err_after = None;
                w.wr_err_fired = Some(m);
                return Poll::Ready(Err(io::Error::new(io::ErrorKind::BrokenPipe, "sim: write error")));
            }
            n = n.min(room);
        }
        if n > 0 {
            w.out.extend_from_slice(&buf[..n]);
            if let Some(c) = w.wr_cap.as_mut() {
                *c -= n;
            }
            Poll::Ready(Ok(n))
        } else {
            w.wr_waker = Some(cx.waker().clone());
            w.wr_pending_polls += 1;
            Poll::Pending
        }
    }
}

impl IoStream for SimStream {
    fn start(self, ctx: IoContext) -> Box<dyn Handle> {
        let io = Rc::new(self);
        ntex_util::spawn(run(io.clone(), ctx));
        Box::new(SimHandle(io))
    }
}

struct SimHandle(#[allow(dead_code)] Rc<SimStream>);

impl Handle for SimHandle {
    fn query(&self, _: any::TypeId) -> Option<Box<dyn any::Any>> {
        None
    }
}

#[derive(Copy, Clone, Debug, PartialEq, Eq)]
enum Status {
    Shutdown,
    Terminate,
}

// The functions below mirror ntex-io 3.13.1 src/testing.rs (run/turn/read/write/write_io).

async fn run(io: Rc<SimStream>, ctx: IoContext) {
    let st = poll_fn(|cx| turn(&io, &ctx, cx)).await;

    if !ctx.is_stopped() {
        let flush = st == Status::Shutdown;
        poll_fn(|cx| {
            if turn(&io, &ctx, cx) == Poll::Ready(Status::Terminate) {
                return Poll::Ready(());
            }
            ctx.shutdown(flush, cx)
        })
        .await;
    }

    // shutdown WRITE side
    io.wire.0.borrow_mut().ep_closed = true;

    if !ctx.is_stopped() {
        ctx.stop(None);
    }
}

fn turn(io: &SimStream, ctx: &IoContext, cx: &mut Context<'_>) -> Poll<Status> {
    let read = match ctx.poll_read_ready(cx) {
        Poll::Ready(Readiness::Ready) => read(io, ctx, cx),
        Poll::Ready(Readiness::Shutdown | Readiness::Terminate) => Poll::Ready(()),
        Poll::Pending => Poll::Pending,
    };

    let write = match ctx.poll_write_ready(cx) {
        Poll::Ready(Readiness::Ready) => write(io, ctx, cx),
        Poll::Ready(Readiness::Shutdown) => Poll::Ready(Status::Shutdown),
        Poll::Ready(Readiness::Terminate) => Poll::Ready(Status::Terminate),
        Poll::Pending => Poll::Pending,
    };

    if read.is_pending() && write.is_pending() {
        Poll::Pending
    } else if write.is_ready() {
        write
    } else {
        Poll::Ready(Status::Terminate)
    }
}

fn write(io: &SimStream, ctx: &IoContext, cx: &mut Context<'_>) -> Poll<Status> {
    let result = ctx.with_write_buf(|buf| write_io(io, buf, cx, ctx));
    if ctx.update_write_status(result) == IoTaskStatus::Stop {
        Poll::Ready(Status::Terminate)
    } else {
        Poll::Pending
    }
}

fn read(io: &SimStream, ctx: &IoContext, cx: &mut Context<'_>) -> Poll<()> {
    loop {
        let mut buf = ctx.get_read_buf();

        let (pending, result) = match io.poll_read_buf(cx, &mut buf) {
            Poll::Ready(Ok(0)) => {
                ctx.stop(None);
                (false, Ok(0))
            }
            Poll::Ready(val) => (false, val),
            Poll::Pending => (true, Ok(0)),
        };
        return match ctx.update_read_status(buf, result) {
            IoTaskStatus::Io => {
                if pending {
                    Poll::Pending
                } else {
                    continue;
                }
            }
            IoTaskStatus::Stop => Poll::Ready(()),
            IoTaskStatus::Pause => Poll::Pending,
        };
    }
}

fn write_io(io: &SimStream, buf: &mut BytePages, cx: &mut Context<'_>, ctx: &IoContext) -> io::Result<bool> {
    let mut written = 0;

    while let Some(mut page) = buf.take() {
        let result = io.poll_write_buf(cx, &page)?;
        match result {
            Poll::Ready(0) => {
                ctx.stop(None);
                return Ok(false);
            }
            Poll::Ready(n) => {
                written += n;
                page.advance_to(n);
                buf.prepend(page);
            }
            Poll::Pending => {
                buf.prepend(page);
                break;
            }
        }
    }
    Ok(written > 0)
}
