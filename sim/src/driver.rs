//! The simulator's main loop, implemented as an `ntex_rt::Driver`: it owns the order of task polls,
//! byte deliveries, peer actions, handler completions, application operations, faults and the clock.
use std::cell::RefCell;
use std::io;
use std::rc::Rc;

use ntex_rt::{Driver, Notify, Runtime};
use ntex_util::time::simclock;

use crate::net::RdState;
use crate::peer::{Owed, Peer};
use crate::plan::{AckDeviation, Cut, Ending, Plan, Sched};
use crate::refcodec::Pkt;
use crate::world::{Ev, GateKind, NEG_CODES, Outcome, World};

#[derive(Debug)]
pub struct NoopNotify;

impl Notify for NoopNotify {
    fn notify(&self) -> io::Result<()> {
        Ok(())
    }
}

#[derive(Clone, Copy, Debug, PartialEq, Eq)]
pub enum Phase {
    Main,
    Settle,
    Fin,
    Done,
}

#[derive(Clone, Debug)]
enum Act {
    Deliver(usize),
    PeerConnect(usize),
    PeerScript(usize),
    /// one scripted step (PeerScript performs one, or - glued scripts - all that are left)
    PeerScriptOne(usize),
    PeerAck(usize, usize),
    PeerDeviate(usize),
    OpenGate(usize),
    GateRead(usize),
    AppGo(usize),
    AppCancel(usize),
    Stall(usize),
    Grant(usize),
    Unstall(usize),
    Spurious(usize),
    ClockStall,
}

pub struct DrvState {
    pub peers: Vec<Peer>,
    pub phase: Phase,
    pub stalled: Vec<bool>,
    pub out_seen: Vec<usize>,
    pub closed_seen: Vec<bool>,
    pub garbage_seen: Vec<bool>,
    pub steps: u64,
    pub pct_left: u32,
    pub last_ack: Vec<Option<(Pkt, Vec<u8>)>>,
    /// script step index -> gate id of the handler invocation it caused (filled lazily)
    pub budget_hit: bool,
    pub fin_done: bool,
    pub forced_done: [bool; 4],
    pub consec_polls: u32,
    /// consecutive task polls that produced no event while no external action was enabled
    pub quiet_polls: u32,
    pub hist_len_seen: usize,
    pub stall_budget: u32,
    pub spurious_budget: u32,
    pub clock_budget: u32,
    pub cancel_budget: u32,
    /// steps left of the "hot window" behind a delivery: application actions (start an operation, cancel
    /// one) are placed densely between the task polls that process what was delivered
    pub hot_left: u32,
    /// next letter of the enumerated sequence of external events (Plan::ext_script)
    pub ext_pos: usize,
    /// task polls since the last letter was performed
    pub polls_since_letter: u32,
}

pub struct SimDriver {
    pub w: Rc<World>,
    pub plan: Rc<Plan>,
    pub st: RefCell<DrvState>,
}

impl SimDriver {
    pub fn new(w: Rc<World>, plan: Rc<Plan>) -> SimDriver {
        SimDriver {
            w,
            plan,
            st: RefCell::new(DrvState {
                peers: Vec::new(),
                phase: Phase::Main,
                stalled: Vec::new(),
                out_seen: Vec::new(),
                closed_seen: Vec::new(),
                garbage_seen: Vec::new(),
                steps: 0,
                pct_left: 3,
                last_ack: Vec::new(),
                budget_hit: false,
                fin_done: false,
                forced_done: [false; 4],
                consec_polls: 0,
                quiet_polls: 0,
                hist_len_seen: 0,
                stall_budget: 3,
                spurious_budget: 8,
                clock_budget: 3,
                cancel_budget: 4,
                hot_left: 0,
                ext_pos: 0,
                polls_since_letter: 0,
            }),
        }
    }

    fn ensure_conns(&self) {
        let n = self.w.wires.borrow().len();
        let mut st = self.st.borrow_mut();
        while st.peers.len() < n {
            let c = st.peers.len();
            st.peers.push(Peer::new(c, self.plan.role.ver(), self.plan.role.is_server()));
            st.stalled.push(false);
            st.out_seen.push(0);
            st.closed_seen.push(false);
            st.garbage_seen.push(false);
            st.last_ack.push(None);
            if self.plan.faults.short_write {
                self.w.wire(c).set_wr_cap(Some(0));
                st.stalled[c] = true;
            }
            if c == 0
                && let Some(m) = self.plan.faults.wr_err_after_bytes
            {
                self.w.wire(c).0.borrow_mut().wr_err_after = Some(m as usize);
            }
        }
    }

    /// Look at what the endpoints wrote during the last step.
    fn observe(&self) {
        self.ensure_conns();
        let n = self.w.wires.borrow().len();
        for c in 0..n {
            let wire = self.w.wire(c);
            let (len, closed) = {
                let ws = wire.0.borrow();
                (ws.out.len(), ws.ep_closed || ws.ep_dropped)
            };
            let fired = wire.0.borrow_mut().wr_err_fired.take();
            let mut st = self.st.borrow_mut();
            if len > st.out_seen[c] {
                self.w.ev(Ev::EpWrite { conn: c, n: len - st.out_seen[c] });
                st.out_seen[c] = len;
                let seq = self.w.seq.get();
                let pkts = {
                    let ws = wire.0.borrow();
                    st.peers[c].observe(seq, &ws.out)
                };
                for (off, l, p) in pkts {
                    self.w.ev(Ev::EpPacket { conn: c, pkt: p, off, len: l });
                }
                if !st.garbage_seen[c]
                    && let Some((off, what)) = st.peers[c].parser.error.clone()
                {
                    st.garbage_seen[c] = true;
                    self.w.ev(Ev::EpGarbage { conn: c, off, what });
                }
            }
            if let Some(m) = fired {
                self.w.fault(c, "wr_err", m as u64);
                self.w.probe("wr-err-at-byte");
            }
            if closed && !st.closed_seen[c] {
                st.closed_seen[c] = true;
                self.w.ev(Ev::EpClosed { conn: c });
            }
        }
    }

    fn script_gate_entered(&self, _step: usize) -> bool {
        // HandlerEntered(i): the i-th publish-handler invocation exists
        self.w.gates.borrow().iter().filter(|g| g.kind == GateKind::Publish).count() > _step
    }

    fn enabled(&self) -> Vec<(Act, u32)> {
        let plan = &self.plan;
        {
            // skip scripted steps whose precondition can never hold any more
            let mut st = self.st.borrow_mut();
            for peer in st.peers.iter_mut() {
                while let Some(step) = plan.peer.script_of(peer.conn).get(peer.script_pos) {
                    if peer.pre_dead(&step.pre) {
                        peer.script_pos += 1;
                    } else {
                        break;
                    }
                }
            }
        }
        let st = self.st.borrow();
        let settle = st.phase != Phase::Main;
        let mut acts: Vec<(Act, u32)> = Vec::new();
        let now_ms = World::now_ms();
        let entered = |i: usize| self.script_gate_entered(i);

        for (c, peer) in st.peers.iter().enumerate() {
            let wire = self.w.wire(c);
            let (inflight, ep_closed) = {
                let ws = wire.0.borrow();
                (ws.inflight.len(), ws.ep_closed || ws.ep_dropped)
            };
            if inflight > 0 && !ep_closed {
                acts.push((Act::Deliver(c), 30));
            } else if inflight > 0 && ep_closed {
                // nobody reads any more: bytes are lost with the connection
                acts.push((Act::Deliver(c), 30));
            }
            if peer.closed {
                continue;
            }
            if peer.ep_is_server && !peer.connect_sent && !plan.peer.skip_connect {
                acts.push((Act::PeerConnect(c), 40));
                continue;
            }
            if c == 0
                && !settle
                && let Some(step) = peer.next_step(&plan.peer)
                && peer.pre_holds(&step.pre, now_ms, &entered)
            {
                acts.push((Act::PeerScript(c), 30));
            }
            if c > 0
                && !settle
                && let Some(step) = peer.next_step(&plan.peer)
                && peer.pre_holds(&step.pre, now_ms, &entered)
            {
                acts.push((Act::PeerScript(c), 30));
            }
            if !peer.owed.is_empty() && (plan.peer.auto_ack || settle || peer.owed[0] == Owed::ConnAck) {
                let dev_now = !settle
                    && peer.connected
                    && plan.peer.deviation != AckDeviation::None
                    && !peer.deviation_done
                    && peer.acks_sent >= plan.peer.deviation_at;
                if dev_now && (peer.deviation_bytes(&plan.peer).is_some() || plan.peer.deviation == AckDeviation::Duplicate) {
                    if plan.peer.deviation == AckDeviation::Duplicate {
                        if st.last_ack[c].is_some() {
                            acts.push((Act::PeerDeviate(c), 30));
                        } else {
                            acts.push((Act::PeerAck(c, 0), 30));
                        }
                    } else {
                        acts.push((Act::PeerDeviate(c), 30));
                    }
                } else {
                    acts.push((Act::PeerAck(c, 0), 30));
                    if plan.peer.pubcomp_any_order && !settle {
                        // a PUBCOMP answers a PUBREL: it may be sent in any order relative to other
                        // PUBCOMPs and ahead of the acknowledgements owed to earlier PUBLISH packets
                        for (i, o) in peer.owed.iter().enumerate().skip(1) {
                            if matches!(o, Owed::PubComp(_)) {
                                acts.push((Act::PeerAck(c, i), 10));
                            }
                        }
                    }
                }
            } else if !settle
                && plan.peer.deviation == AckDeviation::Unsolicited
                && !peer.deviation_done
                && peer.connected
                && peer.owed.is_empty()
                && peer.deviation_bytes(&plan.peer).is_some()
                && peer.acks_sent >= plan.peer.deviation_at
            {
                acts.push((Act::PeerDeviate(c), 10));
            }
            // faults on the write path
            if !settle {
                if !st.stalled[c] && plan.faults.p_wr_stall > 0 && peer.connected && st.stall_budget > 0 {
                    acts.push((Act::Stall(c), plan.faults.p_wr_stall));
                }
                if plan.faults.p_spurious > 0 && st.spurious_budget > 0 {
                    acts.push((Act::Spurious(c), plan.faults.p_spurious));
                }
            }
            if st.stalled[c] {
                let blocked = wire.wr_blocked();
                if plan.faults.short_write {
                    if blocked {
                        acts.push((Act::Grant(c), 30));
                    }
                } else if settle {
                    acts.push((Act::Unstall(c), 50));
                } else {
                    if blocked {
                        acts.push((Act::Grant(c), 10));
                    }
                    acts.push((Act::Unstall(c), 6));
                }
            }
        }

        if !settle {
            // enumerated completion order: only the next handler gate of the order may be opened
            let next_in_order: Option<usize> = if plan.gate_order.is_empty() {
                None
            } else {
                let gs = self.w.gates.borrow();
                let handlers: Vec<&crate::world::Gate> = gs.iter().filter(|g| matches!(g.kind, GateKind::Publish | GateKind::Proto)).collect();
                // first entry of the order whose gate is not opened yet (a gate that does not exist yet blocks
                // the ones behind it: the order is the point)
                plan.gate_order
                    .iter()
                    .map(|k| handlers.get(*k as usize))
                    .find(|g| g.is_none_or(|g| g.opened.is_none() && !g.exited && !g.dropped))
                    .flatten()
                    .map(|g| g.id)
                    .or(Some(usize::MAX))
            };
            for g in self.w.gates.borrow().iter() {
                if g.exited || g.dropped {
                    continue;
                }
                let in_turn = next_in_order.is_none_or(|n| n == g.id || !matches!(g.kind, GateKind::Publish | GateKind::Proto));
                let conn_over = matches!(g.kind, GateKind::Publish | GateKind::Proto) && self.w.conn_done.borrow().get(g.conn).is_some_and(Option::is_some);
                if g.parked && g.opened.is_none() && !g.held && in_turn && !conn_over {
                    acts.push((Act::OpenGate(g.id), 20));
                }
                if g.read_waiting && g.read_credit == 0 {
                    acts.push((Act::GateRead(g.id), 20));
                }
            }
            let hot = if st.hot_left > 0 && plan.p_cancel > 0 { 4 } else { 1 };
            for (i, s) in self.w.senders.borrow().iter().enumerate() {
                if s.waiting && !s.go {
                    acts.push((Act::AppGo(i), 20 * hot));
                }
                if s.busy && !s.waiting && plan.p_cancel > 0 && st.cancel_budget > 0 {
                    acts.push((Act::AppCancel(i), plan.p_cancel * hot));
                }
            }
            if plan.faults.p_clock_stall > 0 && st.clock_budget > 0 {
                acts.push((Act::ClockStall, plan.faults.p_clock_stall));
            }
        }
        acts
    }

    fn exec(&self, act: Act) {
        let plan = &self.plan;
        match act {
            Act::Deliver(c) => {
                let wire = self.w.wire(c);
                let inflight = wire.inflight_len();
                let settle = self.st.borrow().phase != Phase::Main;
                let n = if settle {
                    inflight
                } else {
                    match plan.cut {
                        Cut::All => inflight,
                        Cut::Byte => 1,
                        Cut::Random => {
                            let mut ch = self.w.ch.borrow_mut();
                            match ch.choose(4) {
                                0 => inflight,
                                1 => 1,
                                2 => 1 + ch.choose(inflight.min(16) as u32) as usize,
                                _ => 1 + ch.choose(inflight as u32) as usize,
                            }
                        }
                        Cut::Boundary => {
                            let delivered = wire.0.borrow().delivered_total;
                            let st = self.st.borrow();
                            let next = st.peers[c].boundaries.iter().find(|b| **b > delivered).copied();
                            let d = next.map_or(inflight, |b| b - delivered);
                            let mut ch = self.w.ch.borrow_mut();
                            let n = match ch.choose(3) {
                                0 => d,
                                1 => d.saturating_sub(1),
                                _ => d + 1,
                            };
                            n.clamp(1, inflight)
                        }
                    }
                };
                let mut n = n.clamp(1, inflight);
                // connection loss at a given byte of the peer's stream (C07X): nothing beyond it arrives
                let cut = if c == 0 && !self.st.borrow().forced_done[3] { plan.faults.close_after_bytes } else { None };
                if let Some((j, _)) = cut {
                    let room = (j as usize).saturating_sub(wire.0.borrow().delivered_total);
                    n = n.min(room.max(1));
                }
                let n = wire.deliver(n);
                if n < inflight {
                    self.w.fault(c, "frag", n as u64);
                }
                self.w.ev(Ev::Deliver { conn: c, n });
                self.st.borrow_mut().hot_left = 6;
                if let Some((j, rst)) = cut
                    && wire.0.borrow().delivered_total >= j as usize
                {
                    self.close_at_byte(rst);
                }
            }
            Act::PeerConnect(c) => {
                let mut st = self.st.borrow_mut();
                let mut conn = plan.peer.connect.clone();
                conn.client_id = format!("c{c}");
                let pkt = Pkt::Connect(conn);
                let bytes = crate::refcodec::encode(plan.role.ver(), &pkt);
                let peer = &mut st.peers[c];
                peer.connect_sent = true;
                self.peer_send(peer, c, Some(pkt), bytes, None);
            }
            Act::PeerScript(c) => {
                let glued_more = {
                    let st = self.st.borrow();
                    let pos = st.peers[c].script_pos;
                    c == 0 && plan.glue_from.is_some_and(|g| pos >= g) && pos + 1 < plan.peer.script_of(c).len()
                };
                self.peer_script_step(c);
                if glued_more {
                    // the rest of the script follows at once (same write of the peer, same read of the endpoint)
                    loop {
                        let more = {
                            let st = self.st.borrow();
                            !st.peers[c].closed && st.peers[c].script_pos < plan.peer.script_of(c).len()
                        };
                        if !more {
                            break;
                        }
                        self.peer_script_step(c);
                    }
                }
            }
            Act::PeerScriptOne(c) => {
                let mut st = self.st.borrow_mut();
                let peer = &mut st.peers[c];
                let step = plan.peer.script_of(peer.conn)[peer.script_pos].clone();
                peer.script_pos += 1;
                if !step.bytes.is_empty() {
                    if let Some(Pkt::Publish(p)) = &step.pkt
                        && p.qos > 0
                    {
                        peer.qos_pubs_sent += 1;
                    }
                    self.peer_send(peer, c, step.pkt.clone(), step.bytes.clone(), step.corrupt.clone());
                }
                if let Some(rst) = step.then_close {
                    peer.closed = true;
                    self.w.wire(c).peer_close(if rst { RdState::Err } else { RdState::Fin });
                    self.w.ev(Ev::PeerClose { conn: c, rst });
                    self.w.fault(c, if rst { "rst" } else { "fin" }, 0);
                }
            }
            Act::PeerAck(c, i) => {
                let mut st = self.st.borrow_mut();
                let o = st.peers[c].owed.remove(i).unwrap();
                let (pkt, bytes) = st.peers[c].ack_bytes(&plan.peer, &o);
                if matches!(o, Owed::ConnAck) && plan.peer.connack_code == 0 {
                    st.peers[c].connected = true;
                }
                if matches!(o, Owed::PubAck(_) | Owed::PubComp(_)) {
                    st.peers[c].final_acks_sent += 1;
                }
                st.peers[c].acks_sent += 1;
                if pkt.pid().is_some() {
                    st.last_ack[c] = Some((pkt.clone(), bytes.clone()));
                }
                let peer = &mut st.peers[c];
                self.peer_send(peer, c, Some(pkt), bytes, None);
            }
            Act::PeerDeviate(c) => {
                let mut st = self.st.borrow_mut();
                let dev = if plan.peer.deviation == AckDeviation::Duplicate {
                    st.last_ack[c].clone().map(|(p, b)| {
                        let what = format!("Duplicate:{}", p.brief());
                        (p, b, what)
                    })
                } else {
                    st.peers[c].deviation_bytes(&plan.peer)
                };
                st.peers[c].deviation_done = true;
                if let Some((pkt, bytes, what)) = dev {
                    st.peers[c].last_deviation = Some(what.clone());
                    self.w.fault(c, "ack_deviation", 0);
                    self.w.ev(Ev::Note { what: format!("deviation {what}") });
                    let peer = &mut st.peers[c];
                    self.peer_send(peer, c, Some(pkt), bytes, Some(format!("deviation:{what}")));
                }
            }
            Act::OpenGate(g) => {
                let kind = self.w.gates.borrow()[g].kind;
                let outcome = {
                    let mut ch = self.w.ch.borrow_mut();
                    match kind {
                        GateKind::Publish => match ch.weighted(&plan.w_outcome) {
                            0 => Outcome::Ok,
                            1 => Outcome::Neg(*ch.pick(&NEG_CODES)),
                            _ => Outcome::Err,
                        },
                        GateKind::Proto => match ch.weighted(&plan.w_proto) {
                            0 => Outcome::Ok,
                            1 => Outcome::Disconnect(*ch.pick(&[0x00u8, 0x80, 0x83, 0x8E])),
                            _ => Outcome::Err,
                        },
                        GateKind::Control => match ch.weighted(&plan.w_ctl) {
                            0 => Outcome::Ok,
                            1 => Outcome::OwnDisconnect(*ch.pick(&[0x00u8, 0x80, 0x98])),
                            _ => Outcome::Err,
                        },
                        GateKind::Handshake | GateKind::Shutdown => Outcome::Ok,
                    }
                };
                self.w.gate_open(g, outcome);
            }
            Act::GateRead(g) => self.w.gate_allow_read(g),
            Act::AppGo(s) => self.w.sender_go(s),
            Act::AppCancel(s) => {
                self.st.borrow_mut().cancel_budget -= 1;
                self.w.fault(0, "cancel_op", s as u64);
                self.w.sender_cancel(s);
            }
            Act::Stall(c) => {
                self.st.borrow_mut().stall_budget -= 1;
                self.st.borrow_mut().stalled[c] = true;
                self.w.wire(c).set_wr_cap(Some(0));
                self.w.fault(c, "wr_stall", 0);
            }
            Act::Grant(c) => {
                let k = {
                    let mut ch = self.w.ch.borrow_mut();
                    1 + ch.choose(if plan.faults.short_write { 48 } else { 512 }) as usize
                };
                self.w.wire(c).grant(k);
                self.w.fault(c, "short_write", k as u64);
            }
            Act::Unstall(c) => {
                self.st.borrow_mut().stalled[c] = false;
                self.w.wire(c).set_wr_cap(None);
                self.w.ev(Ev::Note { what: format!("unstall conn {c}") });
            }
            Act::Spurious(c) => {
                self.st.borrow_mut().spurious_budget -= 1;
                self.w.wire(c).spurious_wake();
                self.w.fault(c, "spurious_wake", 0);
            }
            Act::ClockStall => {
                self.st.borrow_mut().clock_budget -= 1;
                let d = {
                    let mut ch = self.w.ch.borrow_mut();
                    (1 + u64::from(ch.choose(5))) * 700
                };
                let t = simclock::now_ns() + d * 1_000_000;
                simclock::advance_to(t);
                self.w.fault(0, "clock_stall", d);
                self.w.ev(Ev::Clock { to_ms: t / 1_000_000 });
            }
        }
    }

    fn peer_script_step(&self, c: usize) {
        self.exec(Act::PeerScriptOne(c));
    }

    /// One letter of Plan::ext_script; skipped when it is not enabled.
    fn exec_letter(&self, a: crate::plan::ExtAct) {
        use crate::plan::ExtAct;
        match a {
            ExtAct::Go(i) => {
                let ok = self.w.senders.borrow().get(i).is_some_and(|s| s.waiting && !s.go);
                if ok {
                    self.exec(Act::AppGo(i));
                }
            }
            ExtAct::Cancel(i) => {
                let ok = self.w.senders.borrow().get(i).is_some_and(|s| s.busy && !s.waiting);
                if ok {
                    self.st.borrow_mut().cancel_budget = 4;
                    self.exec(Act::AppCancel(i));
                }
            }
            ExtAct::Ack => {
                let ok = {
                    let st = self.st.borrow();
                    st.peers.first().is_some_and(|p| !p.closed && p.connected && !p.owed.is_empty())
                };
                if ok {
                    self.exec(Act::PeerAck(0, 0));
                }
            }
            ExtAct::StallOn => {
                let ok = !self.st.borrow().stalled[0];
                if ok {
                    self.st.borrow_mut().stall_budget = 4;
                    self.exec(Act::Stall(0));
                }
            }
            ExtAct::StallOff => {
                let ok = self.st.borrow().stalled[0];
                if ok {
                    self.exec(Act::Unstall(0));
                }
            }
        }
    }

    fn peer_send(&self, peer: &mut Peer, c: usize, pkt: Option<Pkt>, bytes: Vec<u8>, corrupt: Option<String>) {
        let start = peer.sent_total;
        peer.sent_total += bytes.len();
        peer.boundaries.push(peer.sent_total);
        self.w.wire(c).peer_send(&bytes);
        self.w.ev(Ev::PeerSend { conn: c, pkt, len: bytes.len(), corrupt, start });
    }

    fn close_at_byte(&self, rst: bool) {
        let mut st = self.st.borrow_mut();
        st.forced_done[3] = true;
        st.peers.iter_mut().for_each(|p| p.closed = true);
        drop(st);
        let wire = self.w.wire(0);
        let at = wire.0.borrow().delivered_total as u64;
        wire.cut_and_close(if rst { RdState::Err } else { RdState::Fin });
        self.w.ev(Ev::PeerClose { conn: 0, rst });
        self.w.fault(0, if rst { "rst" } else { "fin" }, at);
        self.w.probe("close-at-byte");
    }

    fn forced_faults(&self) {
        if self.w.wires.borrow().is_empty() {
            // the connection does not exist yet: the fault lands as soon as it does
            return;
        }
        if let Some((0, rst)) = self.plan.faults.close_after_bytes
            && !self.st.borrow().forced_done[3]
        {
            self.close_at_byte(rst);
            return;
        }
        let f = &self.plan.faults;
        let steps = self.st.borrow().steps;
        let mut st = self.st.borrow_mut();
        if let Some(s) = f.fin_at_step
            && steps >= s
            && !st.forced_done[0]
        {
            st.forced_done[0] = true;
            st.peers.iter_mut().for_each(|p| p.closed = true);
            drop(st);
            self.w.wire(0).peer_close(RdState::Fin);
            self.w.ev(Ev::PeerClose { conn: 0, rst: false });
            self.w.fault(0, "fin", steps);
            return;
        }
        if let Some(s) = f.rst_at_step
            && steps >= s
            && !st.forced_done[1]
        {
            st.forced_done[1] = true;
            st.peers.iter_mut().for_each(|p| p.closed = true);
            drop(st);
            self.w.wire(0).peer_close(RdState::Err);
            self.w.ev(Ev::PeerClose { conn: 0, rst: true });
            self.w.fault(0, "rst", steps);
            return;
        }
        if let Some(s) = f.wr_err_at_step
            && steps >= s
            && !st.forced_done[2]
        {
            st.forced_done[2] = true;
            drop(st);
            self.w.wire(0).set_wr_err();
            self.w.fault(0, "wr_err", steps);
        }
    }

    /// Next moment something is scheduled to happen: armed sleeper or a timed peer step.
    fn next_time(&self) -> Option<u64> {
        let mut t = simclock::next_deadline();
        let st = self.st.borrow();
        if st.phase == Phase::Main {
            for peer in &st.peers {
                if let Some(step) = peer.next_step(&self.plan.peer)
                    && let crate::plan::Pre::AtMs(ms) = step.pre
                    && !peer.closed
                    && (peer.connect_sent || !peer.ep_is_server || self.plan.peer.skip_connect)
                {
                    let ns = ms * 1_000_000;
                    if ns > simclock::now_ns() {
                        t = Some(t.map_or(ns, |x| x.min(ns)));
                    }
                }
            }
        }
        t
    }

    fn sorted_runnable(rt: &Runtime) -> Vec<(usize, u64, u64)> {
        // (queue index, epoch, task id) in queue order = wake order, exactly what ntex-rt would run
        rt.sim_runnable().into_iter().enumerate().map(|(i, (id, ep))| (i, ep, id)).collect()
    }

    fn next_phase(&self) -> bool {
        let mut st = self.st.borrow_mut();
        match (st.phase, self.plan.ending) {
            (Phase::Main, Ending::Stop) => {
                st.phase = Phase::Done;
                false
            }
            (Phase::Main, _) => {
                st.phase = Phase::Settle;
                drop(st);
                self.w.ev(Ev::Phase { name: "settle" });
                self.w.auto_open.set(true);
                self.w.gates_wake_all();
                let n = self.w.senders.borrow().len();
                for s in 0..n {
                    self.w.sender_go(s);
                }
                true
            }
            (Phase::Settle, Ending::SettleThenFin) => {
                st.phase = Phase::Fin;
                for p in st.peers.iter_mut() {
                    p.closed = true;
                }
                let n = st.peers.len();
                drop(st);
                self.w.ev(Ev::Phase { name: "fin" });
                for c in 0..n {
                    self.w.wire(c).peer_close(RdState::Fin);
                    self.w.ev(Ev::PeerClose { conn: c, rst: false });
                }
                true
            }
            _ => {
                st.phase = Phase::Done;
                false
            }
        }
    }
}

impl Driver for SimDriver {
    fn handle(&self) -> Box<dyn Notify> {
        Box::new(NoopNotify)
    }

    fn run(&self, rt: &Runtime) -> io::Result<()> {
        let plan = self.plan.clone();
        let horizon_ns = plan.horizon_ms * 1_000_000;
        loop {
            if rt.sim_stopped() {
                break;
            }
            self.ensure_conns();
            let steps = {
                let mut st = self.st.borrow_mut();
                st.steps += 1;
                st.steps
            };
            if steps > plan.max_steps {
                self.st.borrow_mut().budget_hit = true;
                self.w.ev(Ev::Note { what: "step budget exhausted".into() });
                self.w.finish();
                // let the main future observe it
                while rt.sim_runnable_len() > 0 && !rt.sim_stopped() {
                    rt.sim_run(0);
                }
                break;
            }
            self.w.seq.set(steps);
            ntex_rt::sim::set_epoch(steps);
            if self.st.borrow().phase == Phase::Main {
                self.forced_faults();
            }

            let runnable = Self::sorted_runnable(rt);
            let mut acts = self.enabled();
            if !plan.ext_script.is_empty() && self.st.borrow().phase == Phase::Main {
                // enumerated external events: starting and cancelling operations, the peer's acknowledgements
                // and write back-pressure happen only as the letters say; delivery and the handshake stay
                // with the ordinary choice
                {
                    let st = self.st.borrow();
                    acts.retain(|(a, _)| match a {
                        Act::AppGo(_) | Act::AppCancel(_) | Act::Stall(_) | Act::Unstall(_) | Act::Grant(_) | Act::Spurious(_) | Act::ClockStall => false,
                        Act::PeerAck(c, _) => st.peers[*c].owed.front() == Some(&Owed::ConnAck),
                        _ => true,
                    });
                }
                let (pos, since) = {
                    let st = self.st.borrow();
                    (st.ext_pos, st.polls_since_letter)
                };
                let quiet = runnable.is_empty() && acts.is_empty();
                if pos < plan.ext_script.len() && (quiet || (plan.ext_script[pos].delay != 255 && since >= u32::from(plan.ext_script[pos].delay))) {
                    let mut k = pos;
                    loop {
                        self.exec_letter(plan.ext_script[k].act);
                        k += 1;
                        if k >= plan.ext_script.len() || plan.ext_script[k].delay != 0 {
                            break;
                        }
                    }
                    self.st.borrow_mut().polls_since_letter = 0;
                    self.st.borrow_mut().ext_pos = k;
                    self.observe();
                    continue;
                }
            }

            // A task that wakes itself for ever (observed: the connection dispatcher re-polls in a tight
            // loop while a protocol-control handler is busy and another control packet is buffered)
            // never lets the run queue drain. It changes nothing: after 300 polls without any event
            // and with no external action possible the system is treated as quiescent.
            let spinning = {
                let mut st = self.st.borrow_mut();
                // (progress = a new event, or bytes moving through a socket: a long payload read in small
                // pieces produces no event for hundreds of polls)
                let moved: usize = (0..st.peers.len()).map(|c| self.w.wire(c).arrived_len() + self.w.wire(c).out_len()).sum();
                let hl = self.w.hist.borrow().len() + moved.wrapping_mul(1_000_003);
                if hl != st.hist_len_seen || !acts.is_empty() || runnable.is_empty() {
                    st.hist_len_seen = hl;
                    st.quiet_polls = 0;
                } else {
                    st.quiet_polls += 1;
                }
                st.quiet_polls >= 300
            };
            if spinning && self.st.borrow().quiet_polls == 300 {
                self.w.stats.borrow_mut().probes.entry("self-waking-task").and_modify(|n| *n += 1).or_insert(1);
            }
            if (runnable.is_empty() || spinning) && acts.is_empty() {
                self.st.borrow_mut().quiet_polls = 0;
                // quiescent: advance the clock, change phase, or stop
                if let Some(t) = self.next_time()
                    && t <= horizon_ns
                {
                    simclock::advance_to(t);
                    self.w.ev(Ev::Clock { to_ms: t / 1_000_000 });
                    continue;
                }
                if self.next_phase() {
                    continue;
                }
                self.w.finish();
                let mut guard = 0;
                while rt.sim_runnable_len() > 0 && !rt.sim_stopped() && guard < 2000 {
                    rt.sim_run(0);
                    guard += 1;
                }
                break;
            }

            // The real driver looks at external events every `event_interval` (61) task polls even
            // when tasks stay runnable (a self-waking task must not starve io): same here.
            let consec = self.st.borrow().consec_polls;
            let take_ext = if runnable.is_empty() {
                true
            } else if acts.is_empty() {
                false
            } else if consec >= 61 {
                true
            } else {
                let hot = {
                    let mut st = self.st.borrow_mut();
                    let h = st.hot_left > 0 && plan.p_cancel > 0;
                    st.hot_left = st.hot_left.saturating_sub(1);
                    h
                };
                self.w.ch.borrow_mut().chance(if hot { plan.p_ext.max(500) } else { plan.p_ext }, 1000)
            };
            self.st.borrow_mut().consec_polls = if take_ext { 0 } else { consec + 1 };

            if take_ext {
                let weights: Vec<u32> = acts.iter().map(|(_, w)| *w).collect();
                let i = self.w.ch.borrow_mut().weighted(&weights);
                let act = acts[i].0.clone();
                self.exec(act);
            } else {
                let k = {
                    let mut ch = self.w.ch.borrow_mut();
                    match plan.sched {
                        Sched::Fifo => 0,
                        Sched::Random => ch.choose(runnable.len() as u32) as usize,
                        Sched::Pct => {
                            let left = self.st.borrow().pct_left;
                            if left > 0 && runnable.len() > 1 && ch.chance(40, 1000) {
                                self.st.borrow_mut().pct_left -= 1;
                                1 + ch.choose(runnable.len() as u32 - 1) as usize
                            } else {
                                0
                            }
                        }
                    }
                };
                let (qidx, _, _) = runnable[k];
                let tid = rt.sim_run(qidx);
                self.st.borrow_mut().polls_since_letter += 1;
                log::trace!("RUN task {tid:?} (queue len was {})", runnable.len());
                self.w.stats.borrow_mut().task_polls += 1;
            }
            self.observe();
        }
        let mut stats = self.w.stats.borrow_mut();
        stats.steps = self.st.borrow().steps;
        stats.sim_ms = World::now_ms();
        Ok(())
    }
}
