//! `SimPeer`: the remote MQTT endpoint. It speaks only through `refcodec`, follows a script of
//! planned sends and reacts to what the endpoint writes by owing (and later sending) acknowledgements.
use std::collections::VecDeque;

use crate::plan::{AckDeviation, PeerPlan, PeerStep, Pre};
use crate::refcodec::{Ack, ConnAck, Pkt, StreamParser, SubAck, Ver, encode_opts};

#[derive(Clone, Debug, PartialEq, Eq)]
pub enum Owed {
    ConnAck,
    PubAck(u16),
    PubRec(u16),
    PubComp(u16),
    SubAck(u16, usize),
    UnsubAck(u16, usize),
    PingResp,
}

impl Owed {
    pub fn pid(&self) -> Option<u16> {
        match self {
            Owed::PubAck(p) | Owed::PubRec(p) | Owed::PubComp(p) | Owed::SubAck(p, _) | Owed::UnsubAck(p, _) => {
                Some(*p)
            }
            _ => None,
        }
    }
}

pub struct Peer {
    pub conn: usize,
    pub ver: Ver,
    /// the endpoint under test is a server (so this peer is the client and sends CONNECT first)
    pub ep_is_server: bool,
    pub parser: StreamParser,
    /// every packet the endpoint has written, with the step at which its last byte was written
    pub rx: Vec<(u64, Pkt)>,
    pub owed: VecDeque<Owed>,
    pub script_pos: usize,
    pub connect_sent: bool,
    pub connected: bool,
    pub acks_sent: u32,
    pub deviation_done: bool,
    pub closed: bool,
    /// cumulative byte offsets of packet boundaries in what the peer has sent
    pub boundaries: Vec<usize>,
    pub sent_total: usize,
    /// final acks (PUBACK / PUBCOMP) the peer has sent for endpoint publishes
    pub final_acks_sent: u32,
    /// QoS>0 publishes received from the endpoint
    pub qos_pubs_rx: u32,
    pub max_window: u32,
    /// QoS1/2 publishes this peer has sent
    pub qos_pubs_sent: u32,
    /// index of script step -> gate entered? maintained by the driver
    pub last_deviation: Option<String>,
}

pub enum PeerAct {
    Connect,
    Script,
    Ack(usize),
    Deviate,
}

impl Peer {
    pub fn new(conn: usize, ver: Ver, ep_is_server: bool) -> Peer {
        Peer {
            conn,
            ver,
            ep_is_server,
            parser: StreamParser::new(ver),
            rx: Vec::new(),
            owed: VecDeque::new(),
            script_pos: 0,
            connect_sent: false,
            connected: false,
            acks_sent: 0,
            deviation_done: false,
            closed: false,
            boundaries: Vec::new(),
            sent_total: 0,
            final_acks_sent: 0,
            qos_pubs_rx: 0,
            max_window: 0,
            qos_pubs_sent: 0,
            last_deviation: None,
        }
    }

    /// Feed the endpoint's cumulative output; returns newly completed packets.
    pub fn observe(&mut self, seq: u64, all_out: &[u8]) -> Vec<(usize, usize, Pkt)> {
        let pkts = self.parser.feed(all_out);
        for (_, _, p) in &pkts {
            self.rx.push((seq, p.clone()));
            match p {
                Pkt::Connect(_) => {
                    if !self.ep_is_server {
                        self.owed.push_back(Owed::ConnAck);
                    }
                }
                Pkt::ConnAck(c) => {
                    if self.ep_is_server && c.code == 0 {
                        self.connected = true;
                    }
                }
                Pkt::Publish(pb) => {
                    if let Some(pid) = pb.pid {
                        self.qos_pubs_rx += 1;
                        let w = self.qos_pubs_rx - self.final_acks_sent;
                        if w > self.max_window {
                            self.max_window = w;
                        }
                        self.owed.push_back(if pb.qos == 1 { Owed::PubAck(pid) } else { Owed::PubRec(pid) });
                    }
                }
                Pkt::PubRel(a) => self.owed.push_back(Owed::PubComp(a.pid)),
                Pkt::Subscribe(s) => self.owed.push_back(Owed::SubAck(s.pid, s.filters.len())),
                Pkt::Unsubscribe(s) => self.owed.push_back(Owed::UnsubAck(s.pid, s.filters.len())),
                Pkt::PingReq => self.owed.push_back(Owed::PingResp),
                _ => {}
            }
        }
        pkts
    }

    /// QoS1/2 publishes this peer has sent that the endpoint has not finally acknowledged yet
    pub fn peer_window(&self) -> u32 {
        let finals = self.count_rx(|p| match p {
            Pkt::PubAck(_) | Pkt::PubComp(_) => true,
            Pkt::PubRec(a) => a.code >= 0x80,
            _ => false,
        }) as u32;
        self.qos_pubs_sent.saturating_sub(finals)
    }

    pub fn count_rx<F: Fn(&Pkt) -> bool>(&self, f: F) -> usize {
        self.rx.iter().filter(|(_, p)| f(p)).count()
    }

    pub fn pre_holds(&self, pre: &Pre, now_ms: u64, entered: &dyn Fn(usize) -> bool) -> bool {
        match pre {
            Pre::None => true,
            Pre::Connected => self.connected,
            Pre::SawPubRec(pid, n) => {
                self.count_rx(|p| matches!(p, Pkt::PubRec(a) if a.pid == *pid)) >= *n as usize
            }
            Pre::SawPackets(n) => self.rx.len() >= *n,
            Pre::AtMs(t) => now_ms >= *t,
            Pre::SawFinalAck(pid, n) => {
                self.count_rx(|p| match p {
                    Pkt::PubAck(a) | Pkt::PubComp(a) => a.pid == *pid,
                    Pkt::SubAck(s) | Pkt::UnsubAck(s) => s.pid == *pid,
                    _ => false,
                }) >= *n as usize
            }
            Pre::HandlerEntered(i) => entered(*i),
            Pre::WindowBelow(n) => self.peer_window() < u32::from(*n),
        }
    }

    /// The precondition can never become true any more (the step is skipped).
    pub fn pre_dead(&self, pre: &Pre) -> bool {
        match pre {
            Pre::SawPubRec(pid, _) => self.rx.iter().any(|(_, p)| match p {
                // the exchange ended without a successful PUBREC
                Pkt::PubRec(a) => a.pid == *pid && a.code >= 0x80,
                Pkt::PubAck(a) => a.pid == *pid,
                _ => false,
            }),
            _ => false,
        }
    }

    pub fn next_step<'a>(&self, plan: &'a PeerPlan) -> Option<&'a PeerStep> {
        plan.script_of(self.conn).get(self.script_pos)
    }

    /// Bytes of the acknowledgement for an owed entry.
    pub fn ack_bytes(&self, plan: &PeerPlan, o: &Owed) -> (Pkt, Vec<u8>) {
        let code_for = |pid: u16| -> u8 {
            if self.ver == Ver::V5 && !plan.ack_codes.is_empty() {
                plan.ack_codes[(pid as usize) % plan.ack_codes.len()]
            } else {
                0
            }
        };
        let pkt = match o {
            Owed::ConnAck => Pkt::ConnAck(ConnAck {
                session_present: plan.connack_session_present,
                code: plan.connack_code,
                props: plan.connack_props.clone(),
            }),
            Owed::PubAck(p) => Pkt::PubAck(Ack::with(*p, code_for(*p))),
            // a PUBREC >= 0x80 refuses the publish; the library still lets the application release the receipt
            // (PUBREL), which a broker answers with PUBCOMP "packet identifier not found"
            Owed::PubRec(p) => Pkt::PubRec(if plan.refuse_pubrec { Ack::with(*p, code_for(*p)) } else { Ack::ok(*p) }),
            Owed::PubComp(p) => Pkt::PubComp(if plan.refuse_pubrec && code_for(*p) >= 0x80 { Ack::with(*p, 0x92) } else { Ack::ok(*p) }),
            Owed::SubAck(p, n) => Pkt::SubAck(SubAck {
                pid: *p,
                props: Vec::new(),
                codes: (0..*n).map(|i| if self.ver == Ver::V5 { (i % 3) as u8 } else { (i % 3) as u8 }).collect(),
            }),
            Owed::UnsubAck(p, n) => Pkt::UnsubAck(SubAck {
                pid: *p,
                props: Vec::new(),
                codes: if self.ver == Ver::V5 { (0..*n).map(|i| if i % 2 == 0 { 0 } else { 0x11 }).collect() } else { Vec::new() },
            }),
            Owed::PingResp => Pkt::PingResp,
        };
        let mut pkt = pkt;
        if self.ver == Ver::V5 && plan.ack_props_mode != 0 {
            use crate::refcodec::PropVal;
            let user = |k: &str| (38u8, PropVal::Pair(k.to_string(), format!("v{}", o.pid().unwrap_or(0))));
            let reason = (31u8, PropVal::Str(format!("why{}", o.pid().unwrap_or(0))));
            let props = match plan.ack_props_mode {
                1 => vec![user("k1"), reason],
                2 => vec![reason, user("k1")],
                _ => vec![user("k1"), reason, user("k2")],
            };
            match &mut pkt {
                Pkt::PubAck(a) | Pkt::PubRec(a) => a.props = props,
                Pkt::SubAck(x) | Pkt::UnsubAck(x) => x.props = props,
                _ => {}
            }
        }
        let long = plan.long_acks || (self.ver == Ver::V5 && plan.ack_props_mode != 0);
        let b = encode_opts(self.ver, &pkt, long);
        (pkt, b)
    }

    /// A deviating acknowledgement, given the current owed queue. None if not applicable now.
    pub fn deviation_bytes(&self, plan: &PeerPlan) -> Option<(Pkt, Vec<u8>, String)> {
        let ids: Vec<u16> = self.owed.iter().filter_map(Owed::pid).collect();
        let first_acklike = self.owed.iter().position(|o| o.pid().is_some());
        let pkt = match plan.deviation {
            AckDeviation::None => return None,
            AckDeviation::Reorder => {
                // acknowledge the second outstanding exchange (different id) first
                let first = first_acklike?;
                let second = self.owed.iter().enumerate().skip(first + 1).find(|(_, o)| o.pid().is_some())?;
                self.ack_bytes(plan, second.1).0
            }
            AckDeviation::WrongType => {
                let o = &self.owed[first_acklike?];
                match o {
                    Owed::PubAck(p) => {
                        // PUBREC or PUBCOMP or SUBACK for a QoS1 send
                        match p % 3 {
                            0 => Pkt::PubRec(Ack::ok(*p)),
                            1 => Pkt::PubComp(Ack::ok(*p)),
                            _ => Pkt::SubAck(SubAck { pid: *p, props: Vec::new(), codes: vec![0] }),
                        }
                    }
                    Owed::PubRec(p) => match p % 2 {
                        0 => Pkt::PubAck(Ack::ok(*p)),
                        _ => Pkt::PubComp(Ack::ok(*p)),
                    },
                    Owed::PubComp(p) => match p % 2 {
                        0 => Pkt::PubAck(Ack::ok(*p)),
                        _ => Pkt::PubRec(Ack::ok(*p)),
                    },
                    Owed::SubAck(p, _) => match p % 2 {
                        0 => Pkt::PubAck(Ack::ok(*p)),
                        _ => Pkt::UnsubAck(SubAck {
                            pid: *p,
                            props: Vec::new(),
                            codes: if self.ver == Ver::V5 { vec![0] } else { Vec::new() },
                        }),
                    },
                    Owed::UnsubAck(p, _) => match p % 2 {
                        0 => Pkt::SubAck(SubAck { pid: *p, props: Vec::new(), codes: vec![0] }),
                        _ => Pkt::PubRec(Ack::ok(*p)),
                    },
                    _ => return None,
                }
            }
            AckDeviation::Duplicate => {
                // resend the most recent ack the peer sent: modelled by the driver (needs history)
                return None;
            }
            AckDeviation::UnknownId => {
                let mut pid = 0x7001u16;
                while ids.contains(&pid) {
                    pid += 1;
                }
                // same type as the oldest owed, unknown id
                match self.owed.get(first_acklike?)? {
                    Owed::PubAck(_) => Pkt::PubAck(Ack::ok(pid)),
                    Owed::PubRec(_) => Pkt::PubRec(Ack::ok(pid)),
                    Owed::PubComp(_) => Pkt::PubComp(Ack::ok(pid)),
                    Owed::SubAck(_, _) => Pkt::SubAck(SubAck { pid, props: Vec::new(), codes: vec![0] }),
                    Owed::UnsubAck(_, _) => Pkt::UnsubAck(SubAck {
                        pid,
                        props: Vec::new(),
                        codes: if self.ver == Ver::V5 { vec![0] } else { Vec::new() },
                    }),
                    _ => return None,
                }
            }
            AckDeviation::Unsolicited => {
                if !ids.is_empty() {
                    return None;
                }
                // an id the endpoint has never used
                let pid = 0x7009;
                match plan.deviation_at % 4 {
                    0 => Pkt::PubAck(Ack::ok(pid)),
                    1 => Pkt::PubRec(Ack::ok(pid)),
                    2 => Pkt::PubComp(Ack::ok(pid)),
                    _ => Pkt::SubAck(SubAck { pid, props: Vec::new(), codes: vec![0] }),
                }
            }
        };
        let b = encode_opts(self.ver, &pkt, false);
        let what = format!("{:?}:{}", plan.deviation, pkt.brief());
        Some((pkt, b, what))
    }
}
