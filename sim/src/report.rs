//! Human-readable traces and replay files.
use crate::runner::RunOut;
use crate::world::Ev;

pub fn ev_line(e: &crate::world::Event) -> String {
    let body = match &e.ev {
        Ev::PeerSend { conn, pkt, len, corrupt, .. } => format!(
            "peer{conn} -> {} ({len} B){}",
            pkt.as_ref().map_or_else(|| "raw bytes".to_string(), |p| p.brief()),
            corrupt.as_ref().map_or(String::new(), |c| format!(" [{c}]"))
        ),
        Ev::EpPacket { conn, pkt, .. } => format!("endpoint{conn} wrote {}", pkt.brief()),
        Ev::Deliver { conn, n } => format!("deliver {n} B to endpoint{conn}"),
        other => format!("{other:?}"),
    };
    format!("[{:>5} t={}ms] {}", e.seq, e.t_ms, body)
}

pub fn sample_trace(r: &RunOut, max: usize) -> String {
    let mut lines: Vec<String> = Vec::new();
    lines.push(format!(
        "family={} tags={:?} role={} sched={:?} p_ext={} cut={:?} ending={:?}",
        r.plan.family,
        r.plan.tags,
        r.plan.role.name(),
        r.plan.sched,
        r.plan.p_ext,
        r.plan.cut,
        r.plan.ending
    ));
    for e in r.hist.iter().filter(|e| !matches!(e.ev, Ev::EpWrite { .. } | Ev::Clock { .. })).take(max) {
        lines.push(ev_line(e));
    }
    lines.join("\n")
}
