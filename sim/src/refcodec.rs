//! `refcodec`: an independent MQTT 3.1.1 / 5.0 encoder and decoder written from the OASIS
//! specification text only. It shares no code, constant or table with ntex-mqtt.
//! The simulated peer speaks through it, and every byte an endpoint writes is parsed by it.
//!
//! Strictness: reserved flag bits, once-only properties, property/packet compatibility,
//! reason-code tables, UTF-8 (no U+0000), non-zero packet ids, QoS 3, exact length agreement.

#[derive(Clone, Copy, Debug, PartialEq, Eq, PartialOrd, Ord, Hash)]
pub enum Ver {
    V3,
    V5,
}

#[derive(Clone, Debug, PartialEq, Eq)]
pub enum PropVal {
    Byte(u8),
    U16(u16),
    U32(u32),
    VarInt(u32),
    Str(String),
    Bin(Vec<u8>),
    Pair(String, String),
}

pub type Props = Vec<(u8, PropVal)>;

#[derive(Clone, Debug, PartialEq, Eq)]
pub struct Will {
    pub qos: u8,
    pub retain: bool,
    pub props: Props,
    pub topic: String,
    pub payload: Vec<u8>,
}

#[derive(Clone, Debug, PartialEq, Eq)]
pub struct Connect {
    pub proto_name: String,
    pub level: u8,
    pub clean_start: bool,
    pub keep_alive: u16,
    pub client_id: String,
    pub will: Option<Will>,
    pub username: Option<String>,
    pub password: Option<Vec<u8>>,
    pub props: Props,
}

impl Connect {
    pub fn new(ver: Ver, client_id: &str, keep_alive: u16) -> Connect {
        Connect {
            proto_name: "MQTT".into(),
            level: if ver == Ver::V3 { 4 } else { 5 },
            clean_start: true,
            keep_alive,
            client_id: client_id.into(),
            will: None,
            username: None,
            password: None,
            props: Vec::new(),
        }
    }
}

#[derive(Clone, Debug, PartialEq, Eq)]
pub struct ConnAck {
    pub session_present: bool,
    pub code: u8,
    pub props: Props,
}

#[derive(Clone, PartialEq, Eq)]
pub struct Publish {
    pub dup: bool,
    pub qos: u8,
    pub retain: bool,
    pub topic: String,
    pub pid: Option<u16>,
    pub props: Props,
    pub payload: Vec<u8>,
}

impl std::fmt::Debug for Publish {
    fn fmt(&self, f: &mut std::fmt::Formatter<'_>) -> std::fmt::Result {
        let mut h = 0xcbf2_9ce4_8422_2325u64;
        for b in &self.payload {
            h ^= u64::from(*b);
            h = h.wrapping_mul(0x0000_0100_0000_01b3);
        }
        write!(
            f,
            "Publish {{ dup: {}, qos: {}, retain: {}, topic: {:?}, pid: {:?}, props: {:?}, payload: {}B#{:016x} }}",
            self.dup, self.qos, self.retain, self.topic, self.pid, self.props, self.payload.len(), h
        )
    }
}

#[derive(Clone, Debug, PartialEq, Eq)]
pub struct Ack {
    pub pid: u16,
    pub code: u8,
    pub props: Props,
}

impl Ack {
    pub fn ok(pid: u16) -> Ack {
        Ack { pid, code: 0, props: Vec::new() }
    }
    pub fn with(pid: u16, code: u8) -> Ack {
        Ack { pid, code, props: Vec::new() }
    }
}

#[derive(Clone, Debug, PartialEq, Eq)]
pub struct Subscribe {
    pub pid: u16,
    pub props: Props,
    pub filters: Vec<(String, u8)>,
}

#[derive(Clone, Debug, PartialEq, Eq)]
pub struct SubAck {
    pub pid: u16,
    pub props: Props,
    pub codes: Vec<u8>,
}

#[derive(Clone, Debug, PartialEq, Eq)]
pub struct Unsubscribe {
    pub pid: u16,
    pub props: Props,
    pub filters: Vec<String>,
}

#[derive(Clone, Debug, PartialEq, Eq)]
pub struct Disconnect {
    pub code: u8,
    pub props: Props,
}

#[derive(Clone, Debug, PartialEq, Eq)]
pub enum Pkt {
    Connect(Connect),
    ConnAck(ConnAck),
    Publish(Publish),
    PubAck(Ack),
    PubRec(Ack),
    PubRel(Ack),
    PubComp(Ack),
    Subscribe(Subscribe),
    SubAck(SubAck),
    Unsubscribe(Unsubscribe),
    UnsubAck(SubAck),
    PingReq,
    PingResp,
    Disconnect(Disconnect),
    Auth(Disconnect),
}

impl Pkt {
    pub fn type_nibble(&self) -> u8 {
        match self {
            Pkt::Connect(_) => 1,
            Pkt::ConnAck(_) => 2,
            Pkt::Publish(_) => 3,
            Pkt::PubAck(_) => 4,
            Pkt::PubRec(_) => 5,
            Pkt::PubRel(_) => 6,
            Pkt::PubComp(_) => 7,
            Pkt::Subscribe(_) => 8,
            Pkt::SubAck(_) => 9,
            Pkt::Unsubscribe(_) => 10,
            Pkt::UnsubAck(_) => 11,
            Pkt::PingReq => 12,
            Pkt::PingResp => 13,
            Pkt::Disconnect(_) => 14,
            Pkt::Auth(_) => 15,
        }
    }

    pub fn name(&self) -> &'static str {
        match self {
            Pkt::Connect(_) => "CONNECT",
            Pkt::ConnAck(_) => "CONNACK",
            Pkt::Publish(_) => "PUBLISH",
            Pkt::PubAck(_) => "PUBACK",
            Pkt::PubRec(_) => "PUBREC",
            Pkt::PubRel(_) => "PUBREL",
            Pkt::PubComp(_) => "PUBCOMP",
            Pkt::Subscribe(_) => "SUBSCRIBE",
            Pkt::SubAck(_) => "SUBACK",
            Pkt::Unsubscribe(_) => "UNSUBSCRIBE",
            Pkt::UnsubAck(_) => "UNSUBACK",
            Pkt::PingReq => "PINGREQ",
            Pkt::PingResp => "PINGRESP",
            Pkt::Disconnect(_) => "DISCONNECT",
            Pkt::Auth(_) => "AUTH",
        }
    }

    /// packet identifier, if the packet carries one
    pub fn pid(&self) -> Option<u16> {
        match self {
            Pkt::Publish(p) => p.pid,
            Pkt::PubAck(a) | Pkt::PubRec(a) | Pkt::PubRel(a) | Pkt::PubComp(a) => Some(a.pid),
            Pkt::Subscribe(s) => Some(s.pid),
            Pkt::SubAck(s) | Pkt::UnsubAck(s) => Some(s.pid),
            Pkt::Unsubscribe(s) => Some(s.pid),
            _ => None,
        }
    }

    /// short human/signature form: "PUBLISH q1 #3", "PUBACK #3 c=0x10"
    pub fn brief(&self) -> String {
        match self {
            Pkt::Publish(p) => format!(
                "PUBLISH q{}{}{} {}#{} t={:?} len={}",
                p.qos,
                if p.dup { " dup" } else { "" },
                if p.retain { " ret" } else { "" },
                if prop_get(&p.props, 35).is_some() { "alias " } else { "" },
                p.pid.unwrap_or(0),
                p.topic,
                p.payload.len()
            ),
            Pkt::PubAck(a) | Pkt::PubRec(a) | Pkt::PubRel(a) | Pkt::PubComp(a) => {
                format!("{} #{} c=0x{:02x}", self.name(), a.pid, a.code)
            }
            Pkt::Subscribe(s) => format!("SUBSCRIBE #{} n={}", s.pid, s.filters.len()),
            Pkt::Unsubscribe(s) => format!("UNSUBSCRIBE #{} n={}", s.pid, s.filters.len()),
            Pkt::SubAck(s) | Pkt::UnsubAck(s) => format!("{} #{} codes={:02x?}", self.name(), s.pid, s.codes),
            Pkt::ConnAck(c) => format!("CONNACK c=0x{:02x} sp={}", c.code, c.session_present),
            Pkt::Connect(c) => format!("CONNECT {} l{} ka={}", c.proto_name, c.level, c.keep_alive),
            Pkt::Disconnect(d) => format!("DISCONNECT c=0x{:02x}", d.code),
            Pkt::Auth(d) => format!("AUTH c=0x{:02x}", d.code),
            Pkt::PingReq => "PINGREQ".into(),
            Pkt::PingResp => "PINGRESP".into(),
        }
    }
}

pub fn prop_get(props: &Props, id: u8) -> Option<&PropVal> {
    props.iter().find(|(i, _)| *i == id).map(|(_, v)| v)
}

pub fn prop_u16(props: &Props, id: u8) -> Option<u16> {
    match prop_get(props, id) {
        Some(PropVal::U16(v)) => Some(*v),
        _ => None,
    }
}

pub fn prop_u32(props: &Props, id: u8) -> Option<u32> {
    match prop_get(props, id) {
        Some(PropVal::U32(v)) => Some(*v),
        _ => None,
    }
}

pub fn prop_byte(props: &Props, id: u8) -> Option<u8> {
    match prop_get(props, id) {
        Some(PropVal::Byte(v)) => Some(*v),
        _ => None,
    }
}

// ---------------------------------------------------------------------------------------
// errors

#[derive(Clone, Debug, PartialEq, Eq)]
pub enum Malformed {
    /// inner lengths or counts run past the end of the frame
    Overrun(&'static str),
    /// bytes left inside the frame after the last field the packet type allows
    Leftover(&'static str),
    UnknownProperty(u8),
    /// property not allowed in this packet type
    MisplacedProperty(u8),
    DuplicateProperty(u8),
    UnknownReasonCode(u8),
    ZeroPacketId,
    BadQos,
    BadUtf8,
    ReservedFlags,
    BadVarInt,
    BadProtocol,
    /// spec rules outside the classes above (e.g. empty SUBSCRIBE, bad option bits, bad bool)
    Other(&'static str),
}

impl Malformed {
    /// Is this one of the rule classes the C02 statement says MUST be reported as an error?
    pub fn must_reject(&self) -> bool {
        matches!(
            self,
            Malformed::Overrun(_)
                | Malformed::Leftover(_)
                | Malformed::UnknownProperty(_)
                | Malformed::DuplicateProperty(_)
                | Malformed::UnknownReasonCode(_)
                | Malformed::ZeroPacketId
                | Malformed::BadQos
                | Malformed::BadUtf8
        )
    }
    pub fn class(&self) -> &'static str {
        match self {
            Malformed::Overrun(_) => "overrun",
            Malformed::Leftover(_) => "leftover",
            Malformed::UnknownProperty(_) => "unknown-property",
            Malformed::MisplacedProperty(_) => "misplaced-property",
            Malformed::DuplicateProperty(_) => "duplicate-property",
            Malformed::UnknownReasonCode(_) => "unknown-reason-code",
            Malformed::ZeroPacketId => "zero-packet-id",
            Malformed::BadQos => "qos3",
            Malformed::BadUtf8 => "bad-utf8",
            Malformed::ReservedFlags => "reserved-flags",
            Malformed::BadVarInt => "bad-varint",
            Malformed::BadProtocol => "bad-protocol",
            Malformed::Other(_) => "other",
        }
    }
}

// ---------------------------------------------------------------------------------------
// property table (MQTT 5.0 section 2.2.2.2)

#[derive(Clone, Copy, PartialEq, Eq)]
enum PT {
    Byte,
    U16,
    U32,
    VarInt,
    Str,
    Bin,
    Pair,
}

// packet-kind bit masks for "allowed in"
const K_CONNECT: u32 = 1 << 1;
const K_CONNACK: u32 = 1 << 2;
const K_PUBLISH: u32 = 1 << 3;
const K_PUBACK: u32 = 1 << 4;
const K_PUBREC: u32 = 1 << 5;
const K_PUBREL: u32 = 1 << 6;
const K_PUBCOMP: u32 = 1 << 7;
const K_SUBSCRIBE: u32 = 1 << 8;
const K_SUBACK: u32 = 1 << 9;
const K_UNSUBSCRIBE: u32 = 1 << 10;
const K_UNSUBACK: u32 = 1 << 11;
const K_DISCONNECT: u32 = 1 << 14;
const K_AUTH: u32 = 1 << 15;
const K_WILL: u32 = 1 << 16;
const K_ALLACKS: u32 = K_PUBACK | K_PUBREC | K_PUBREL | K_PUBCOMP | K_SUBACK | K_UNSUBACK;

fn prop_info(id: u8) -> Option<(PT, u32, bool)> {
    // (type, allowed-in mask, may repeat)
    Some(match id {
        1 => (PT::Byte, K_PUBLISH | K_WILL, false),
        2 => (PT::U32, K_PUBLISH | K_WILL, false),
        3 => (PT::Str, K_PUBLISH | K_WILL, false),
        8 => (PT::Str, K_PUBLISH | K_WILL, false),
        9 => (PT::Bin, K_PUBLISH | K_WILL, false),
        11 => (PT::VarInt, K_PUBLISH | K_SUBSCRIBE, true),
        17 => (PT::U32, K_CONNECT | K_CONNACK | K_DISCONNECT, false),
        18 => (PT::Str, K_CONNACK, false),
        19 => (PT::U16, K_CONNACK, false),
        21 => (PT::Str, K_CONNECT | K_CONNACK | K_AUTH, false),
        22 => (PT::Bin, K_CONNECT | K_CONNACK | K_AUTH, false),
        23 => (PT::Byte, K_CONNECT, false),
        24 => (PT::U32, K_WILL, false),
        25 => (PT::Byte, K_CONNECT, false),
        26 => (PT::Str, K_CONNACK, false),
        28 => (PT::Str, K_CONNACK | K_DISCONNECT, false),
        31 => (PT::Str, K_CONNACK | K_ALLACKS | K_DISCONNECT | K_AUTH, false),
        33 => (PT::U16, K_CONNECT | K_CONNACK, false),
        34 => (PT::U16, K_CONNECT | K_CONNACK, false),
        35 => (PT::U16, K_PUBLISH, false),
        36 => (PT::Byte, K_CONNACK, false),
        37 => (PT::Byte, K_CONNACK, false),
        38 => (
            PT::Pair,
            K_CONNECT
                | K_CONNACK
                | K_PUBLISH
                | K_WILL
                | K_ALLACKS
                | K_SUBSCRIBE
                | K_UNSUBSCRIBE
                | K_DISCONNECT
                | K_AUTH,
            true,
        ),
        39 => (PT::U32, K_CONNECT | K_CONNACK, false),
        40 => (PT::Byte, K_CONNACK, false),
        41 => (PT::Byte, K_CONNACK, false),
        42 => (PT::Byte, K_CONNACK, false),
        _ => return None,
    })
}

fn reason_ok(kind: u32, code: u8) -> bool {
    let t: &[u8] = match kind {
        K_CONNACK => &[
            0x00, 0x80, 0x81, 0x82, 0x83, 0x84, 0x85, 0x86, 0x87, 0x88, 0x89, 0x8A, 0x8C, 0x90, 0x95, 0x97,
            0x99, 0x9A, 0x9B, 0x9C, 0x9D, 0x9F,
        ],
        K_PUBACK | K_PUBREC => &[0x00, 0x10, 0x80, 0x83, 0x87, 0x90, 0x91, 0x97, 0x99],
        K_PUBREL | K_PUBCOMP => &[0x00, 0x92],
        K_SUBACK => &[0x00, 0x01, 0x02, 0x80, 0x83, 0x87, 0x8F, 0x91, 0x97, 0x9E, 0xA1, 0xA2],
        K_UNSUBACK => &[0x00, 0x11, 0x80, 0x83, 0x87, 0x8F, 0x91],
        K_DISCONNECT => &[
            0x00, 0x04, 0x80, 0x81, 0x82, 0x83, 0x87, 0x89, 0x8B, 0x8D, 0x8E, 0x8F, 0x90, 0x93, 0x94, 0x95,
            0x96, 0x97, 0x98, 0x99, 0x9A, 0x9B, 0x9C, 0x9D, 0x9E, 0xA0, 0xA1, 0xA2,
        ],
        K_AUTH => &[0x00, 0x18, 0x19],
        _ => return true,
    };
    t.contains(&code)
}

// ---------------------------------------------------------------------------------------
// primitive writers

pub fn put_varint(out: &mut Vec<u8>, mut v: u32) {
    loop {
        let mut b = (v % 128) as u8;
        v /= 128;
        if v > 0 {
            b |= 0x80;
        }
        out.push(b);
        if v == 0 {
            break;
        }
    }
}

pub fn varint_len(v: u32) -> usize {
    if v < 128 {
        1
    } else if v < 16_384 {
        2
    } else if v < 2_097_152 {
        3
    } else {
        4
    }
}

fn put_u16(out: &mut Vec<u8>, v: u16) {
    out.extend_from_slice(&v.to_be_bytes());
}
fn put_u32(out: &mut Vec<u8>, v: u32) {
    out.extend_from_slice(&v.to_be_bytes());
}
fn put_bin(out: &mut Vec<u8>, b: &[u8]) {
    put_u16(out, b.len() as u16);
    out.extend_from_slice(b);
}
fn put_str(out: &mut Vec<u8>, s: &str) {
    put_bin(out, s.as_bytes());
}

pub fn put_props(out: &mut Vec<u8>, props: &Props) {
    let mut body = Vec::new();
    for (id, v) in props {
        body.push(*id);
        match v {
            PropVal::Byte(b) => body.push(*b),
            PropVal::U16(x) => put_u16(&mut body, *x),
            PropVal::U32(x) => put_u32(&mut body, *x),
            PropVal::VarInt(x) => put_varint(&mut body, *x),
            PropVal::Str(s) => put_str(&mut body, s),
            PropVal::Bin(b) => put_bin(&mut body, b),
            PropVal::Pair(k, v) => {
                put_str(&mut body, k);
                put_str(&mut body, v);
            }
        }
    }
    put_varint(out, body.len() as u32);
    out.extend_from_slice(&body);
}

fn frame(first: u8, body: Vec<u8>) -> Vec<u8> {
    let mut out = Vec::with_capacity(body.len() + 5);
    out.push(first);
    put_varint(&mut out, body.len() as u32);
    out.extend_from_slice(&body);
    out
}

/// Encode one packet. `long_acks`: for v5 acks / disconnect / auth with code 0 and no properties,
/// emit the explicit reason code and property length instead of the short form.
pub fn encode(ver: Ver, pkt: &Pkt) -> Vec<u8> {
    encode_opts(ver, pkt, false)
}

pub fn encode_opts(ver: Ver, pkt: &Pkt, long_acks: bool) -> Vec<u8> {
    let v5 = ver == Ver::V5;
    let mut b = Vec::new();
    match pkt {
        Pkt::Connect(c) => {
            put_str(&mut b, &c.proto_name);
            b.push(c.level);
            let mut flags = 0u8;
            if c.clean_start {
                flags |= 0x02;
            }
            if let Some(w) = &c.will {
                flags |= 0x04 | (w.qos << 3);
                if w.retain {
                    flags |= 0x20;
                }
            }
            if c.password.is_some() {
                flags |= 0x40;
            }
            if c.username.is_some() {
                flags |= 0x80;
            }
            b.push(flags);
            put_u16(&mut b, c.keep_alive);
            if v5 {
                put_props(&mut b, &c.props);
            }
            put_str(&mut b, &c.client_id);
            if let Some(w) = &c.will {
                if v5 {
                    put_props(&mut b, &w.props);
                }
                put_str(&mut b, &w.topic);
                put_bin(&mut b, &w.payload);
            }
            if let Some(u) = &c.username {
                put_str(&mut b, u);
            }
            if let Some(p) = &c.password {
                put_bin(&mut b, p);
            }
            frame(0x10, b)
        }
        Pkt::ConnAck(c) => {
            b.push(u8::from(c.session_present));
            b.push(c.code);
            if v5 {
                put_props(&mut b, &c.props);
            }
            frame(0x20, b)
        }
        Pkt::Publish(p) => {
            put_str(&mut b, &p.topic);
            if p.qos > 0 {
                put_u16(&mut b, p.pid.unwrap_or(0));
            }
            if v5 {
                put_props(&mut b, &p.props);
            }
            b.extend_from_slice(&p.payload);
            let first = 0x30 | (u8::from(p.dup) << 3) | (p.qos << 1) | u8::from(p.retain);
            frame(first, b)
        }
        Pkt::PubAck(a) | Pkt::PubRec(a) | Pkt::PubRel(a) | Pkt::PubComp(a) => {
            put_u16(&mut b, a.pid);
            if v5 && (a.code != 0 || !a.props.is_empty() || long_acks) {
                b.push(a.code);
                if !a.props.is_empty() || long_acks {
                    put_props(&mut b, &a.props);
                }
            }
            let first = match pkt {
                Pkt::PubAck(_) => 0x40,
                Pkt::PubRec(_) => 0x50,
                Pkt::PubRel(_) => 0x62,
                _ => 0x70,
            };
            frame(first, b)
        }
        Pkt::Subscribe(s) => {
            put_u16(&mut b, s.pid);
            if v5 {
                put_props(&mut b, &s.props);
            }
            for (f, o) in &s.filters {
                put_str(&mut b, f);
                b.push(*o);
            }
            frame(0x82, b)
        }
        Pkt::SubAck(s) => {
            put_u16(&mut b, s.pid);
            if v5 {
                put_props(&mut b, &s.props);
            }
            b.extend_from_slice(&s.codes);
            frame(0x90, b)
        }
        Pkt::Unsubscribe(s) => {
            put_u16(&mut b, s.pid);
            if v5 {
                put_props(&mut b, &s.props);
            }
            for f in &s.filters {
                put_str(&mut b, f);
            }
            frame(0xA2, b)
        }
        Pkt::UnsubAck(s) => {
            put_u16(&mut b, s.pid);
            if v5 {
                put_props(&mut b, &s.props);
                b.extend_from_slice(&s.codes);
            }
            frame(0xB0, b)
        }
        Pkt::PingReq => frame(0xC0, b),
        Pkt::PingResp => frame(0xD0, b),
        Pkt::Disconnect(d) | Pkt::Auth(d) => {
            if v5 && (d.code != 0 || !d.props.is_empty() || long_acks) {
                b.push(d.code);
                if !d.props.is_empty() || long_acks {
                    put_props(&mut b, &d.props);
                }
            }
            frame(if matches!(pkt, Pkt::Disconnect(_)) { 0xE0 } else { 0xF0 }, b)
        }
    }
}

// ---------------------------------------------------------------------------------------
// decoder

struct Cur<'a> {
    b: &'a [u8],
    p: usize,
}

impl<'a> Cur<'a> {
    fn rem(&self) -> usize {
        self.b.len() - self.p
    }
    fn u8(&mut self, what: &'static str) -> Result<u8, Malformed> {
        if self.rem() < 1 {
            return Err(Malformed::Overrun(what));
        }
        let v = self.b[self.p];
        self.p += 1;
        Ok(v)
    }
    fn u16(&mut self, what: &'static str) -> Result<u16, Malformed> {
        if self.rem() < 2 {
            return Err(Malformed::Overrun(what));
        }
        let v = u16::from_be_bytes([self.b[self.p], self.b[self.p + 1]]);
        self.p += 2;
        Ok(v)
    }
    fn u32(&mut self, what: &'static str) -> Result<u32, Malformed> {
        if self.rem() < 4 {
            return Err(Malformed::Overrun(what));
        }
        let v = u32::from_be_bytes([self.b[self.p], self.b[self.p + 1], self.b[self.p + 2], self.b[self.p + 3]]);
        self.p += 4;
        Ok(v)
    }
    fn take(&mut self, n: usize, what: &'static str) -> Result<&'a [u8], Malformed> {
        if self.rem() < n {
            return Err(Malformed::Overrun(what));
        }
        let s = &self.b[self.p..self.p + n];
        self.p += n;
        Ok(s)
    }
    fn bin(&mut self, what: &'static str) -> Result<Vec<u8>, Malformed> {
        let n = self.u16(what)? as usize;
        Ok(self.take(n, what)?.to_vec())
    }
    fn str(&mut self, what: &'static str) -> Result<String, Malformed> {
        let n = self.u16(what)? as usize;
        let raw = self.take(n, what)?;
        let s = std::str::from_utf8(raw).map_err(|_| Malformed::BadUtf8)?;
        if s.contains('\0') {
            // [MQTT-1.5.3-2] forbids U+0000; it is well-formed UTF-8 though, so not the "invalid UTF-8"
            // class of the C02 statement
            return Err(Malformed::Other("null character in string"));
        }
        Ok(s.to_string())
    }
    fn varint(&mut self, what: &'static str) -> Result<u32, Malformed> {
        let mut mult = 1u32;
        let mut v = 0u32;
        for i in 0..4 {
            let b = self.u8(what)?;
            v += u32::from(b & 0x7f) * mult;
            if b & 0x80 == 0 {
                return Ok(v);
            }
            if i == 3 {
                return Err(Malformed::BadVarInt);
            }
            mult *= 128;
        }
        Err(Malformed::BadVarInt)
    }
    fn pid(&mut self) -> Result<u16, Malformed> {
        let v = self.u16("packet id")?;
        if v == 0 { Err(Malformed::ZeroPacketId) } else { Ok(v) }
    }
    fn props(&mut self, kind: u32) -> Result<Props, Malformed> {
        let len = self.varint("property length")? as usize;
        let body = self.take(len, "properties")?;
        let mut c = Cur { b: body, p: 0 };
        let mut out: Props = Vec::new();
        while c.rem() > 0 {
            let id = c.u8("property id")?;
            let Some((ty, allowed, repeat)) = prop_info(id) else {
                return Err(Malformed::UnknownProperty(id));
            };
            if allowed & kind == 0 {
                return Err(Malformed::MisplacedProperty(id));
            }
            // (the Subscription Identifier may repeat in a PUBLISH only: a SUBSCRIBE carries at most one)
            let repeat = repeat && !(id == 11 && kind == K_SUBSCRIBE);
            if !repeat && out.iter().any(|(i, _)| *i == id) {
                return Err(Malformed::DuplicateProperty(id));
            }
            let v = match ty {
                PT::Byte => PropVal::Byte(c.u8("property value")?),
                PT::U16 => PropVal::U16(c.u16("property value")?),
                PT::U32 => PropVal::U32(c.u32("property value")?),
                PT::VarInt => PropVal::VarInt(c.varint("property value")?),
                PT::Str => PropVal::Str(c.str("property value")?),
                PT::Bin => PropVal::Bin(c.bin("property value")?),
                PT::Pair => {
                    let k = c.str("property value")?;
                    let v = c.str("property value")?;
                    PropVal::Pair(k, v)
                }
            };
            out.push((id, v));
        }
        Ok(out)
    }
    fn done(&self, what: &'static str) -> Result<(), Malformed> {
        if self.rem() != 0 { Err(Malformed::Leftover(what)) } else { Ok(()) }
    }
}

/// Result of looking at the start of a byte stream.
#[derive(Debug)]
pub enum Frame {
    /// not enough bytes for a complete frame yet
    Incomplete,
    /// a complete frame of `len` bytes (fixed header included) and its decoding
    Complete { len: usize, pkt: Result<Pkt, Malformed> },
    /// the fixed header itself is malformed (Remaining Length varint)
    BadHeader,
}

/// Parse the fixed header: (first byte, remaining length, header length)
pub fn fixed_header(buf: &[u8]) -> Result<Option<(u8, usize, usize)>, ()> {
    if buf.len() < 2 {
        return Ok(None);
    }
    let mut mult = 1usize;
    let mut v = 0usize;
    for i in 0..4 {
        if buf.len() < 2 + i {
            return Ok(None);
        }
        let b = buf[1 + i];
        v += usize::from(b & 0x7f) * mult;
        if b & 0x80 == 0 {
            return Ok(Some((buf[0], v, 2 + i)));
        }
        mult *= 128;
    }
    Err(())
}

pub fn decode_stream(ver: Ver, buf: &[u8]) -> Frame {
    match fixed_header(buf) {
        Err(()) => Frame::BadHeader,
        Ok(None) => Frame::Incomplete,
        Ok(Some((first, rem, hl))) => {
            if buf.len() < hl + rem {
                Frame::Incomplete
            } else {
                Frame::Complete { len: hl + rem, pkt: decode_body(ver, first, &buf[hl..hl + rem]) }
            }
        }
    }
}

pub fn decode_body(ver: Ver, first: u8, body: &[u8]) -> Result<Pkt, Malformed> {
    let v5 = ver == Ver::V5;
    let ty = first >> 4;
    let flags = first & 0x0f;
    let mut c = Cur { b: body, p: 0 };
    let need_flags = |want: u8| if flags == want { Ok(()) } else { Err(Malformed::ReservedFlags) };
    match ty {
        1 => {
            need_flags(0)?;
            let proto_name = c.str("protocol name")?;
            let level = c.u8("protocol level")?;
            if proto_name != "MQTT" || (level != 4 && level != 5) {
                return Err(Malformed::BadProtocol);
            }
            let v5 = level == 5;
            let fl = c.u8("connect flags")?;
            if fl & 1 != 0 {
                return Err(Malformed::ReservedFlags);
            }
            let keep_alive = c.u16("keep alive")?;
            let props = if v5 { c.props(K_CONNECT)? } else { Vec::new() };
            let client_id = c.str("client id")?;
            let will_qos = (fl >> 3) & 3;
            let will = if fl & 0x04 != 0 {
                if will_qos == 3 {
                    return Err(Malformed::BadQos);
                }
                let wprops = if v5 { c.props(K_WILL)? } else { Vec::new() };
                let topic = c.str("will topic")?;
                let payload = c.bin("will payload")?;
                Some(Will { qos: will_qos, retain: fl & 0x20 != 0, props: wprops, topic, payload })
            } else {
                if will_qos != 0 || fl & 0x20 != 0 {
                    return Err(Malformed::Other("will flags without will"));
                }
                None
            };
            let username = if fl & 0x80 != 0 { Some(c.str("user name")?) } else { None };
            let password = if fl & 0x40 != 0 { Some(c.bin("password")?) } else { None };
            if !v5 && password.is_some() && username.is_none() {
                return Err(Malformed::Other("v3 password without user name"));
            }
            c.done("CONNECT")?;
            Ok(Pkt::Connect(Connect {
                proto_name,
                level,
                clean_start: fl & 0x02 != 0,
                keep_alive,
                client_id,
                will,
                username,
                password,
                props,
            }))
        }
        2 => {
            need_flags(0)?;
            let ack = c.u8("connack flags")?;
            if ack & 0xfe != 0 {
                return Err(Malformed::ReservedFlags);
            }
            let code = c.u8("connack code")?;
            if v5 {
                if !reason_ok(K_CONNACK, code) {
                    return Err(Malformed::UnknownReasonCode(code));
                }
            } else if code > 5 {
                return Err(Malformed::UnknownReasonCode(code));
            }
            let props = if v5 { c.props(K_CONNACK)? } else { Vec::new() };
            c.done("CONNACK")?;
            Ok(Pkt::ConnAck(ConnAck { session_present: ack & 1 != 0, code, props }))
        }
        3 => {
            let qos = (flags >> 1) & 3;
            if qos == 3 {
                return Err(Malformed::BadQos);
            }
            let topic = c.str("topic")?;
            let pid = if qos > 0 { Some(c.pid()?) } else { None };
            let props = if v5 { c.props(K_PUBLISH)? } else { Vec::new() };
            let payload = c.b[c.p..].to_vec();
            Ok(Pkt::Publish(Publish {
                dup: flags & 0x08 != 0,
                qos,
                retain: flags & 1 != 0,
                topic,
                pid,
                props,
                payload,
            }))
        }
        4..=7 => {
            need_flags(if ty == 6 { 2 } else { 0 })?;
            let kind = 1u32 << ty;
            let pid = c.pid()?;
            let (code, props) = if v5 && c.rem() > 0 {
                let code = c.u8("reason code")?;
                if !reason_ok(kind, code) {
                    return Err(Malformed::UnknownReasonCode(code));
                }
                let props = if c.rem() > 0 { c.props(kind)? } else { Vec::new() };
                (code, props)
            } else {
                (0, Vec::new())
            };
            c.done("ack")?;
            let a = Ack { pid, code, props };
            Ok(match ty {
                4 => Pkt::PubAck(a),
                5 => Pkt::PubRec(a),
                6 => Pkt::PubRel(a),
                _ => Pkt::PubComp(a),
            })
        }
        8 => {
            need_flags(2)?;
            let pid = c.pid()?;
            let props = if v5 { c.props(K_SUBSCRIBE)? } else { Vec::new() };
            let mut filters = Vec::new();
            while c.rem() > 0 {
                let f = c.str("topic filter")?;
                let o = c.u8("subscription options")?;
                if o & 3 == 3 {
                    return Err(Malformed::BadQos);
                }
                if v5 {
                    if o & 0xc0 != 0 || (o >> 4) & 3 == 3 {
                        return Err(Malformed::Other("subscription option bits"));
                    }
                } else if o & 0xfc != 0 {
                    return Err(Malformed::ReservedFlags);
                }
                filters.push((f, o));
            }
            if filters.is_empty() {
                return Err(Malformed::Other("SUBSCRIBE without filters"));
            }
            Ok(Pkt::Subscribe(Subscribe { pid, props, filters }))
        }
        9 => {
            need_flags(0)?;
            let pid = c.pid()?;
            let props = if v5 { c.props(K_SUBACK)? } else { Vec::new() };
            let codes = c.b[c.p..].to_vec();
            for code in &codes {
                let ok = if v5 { reason_ok(K_SUBACK, *code) } else { matches!(*code, 0 | 1 | 2 | 0x80) };
                if !ok {
                    return Err(Malformed::UnknownReasonCode(*code));
                }
            }
            if codes.is_empty() {
                return Err(Malformed::Other("SUBACK without codes"));
            }
            Ok(Pkt::SubAck(SubAck { pid, props, codes }))
        }
        10 => {
            need_flags(2)?;
            let pid = c.pid()?;
            let props = if v5 { c.props(K_UNSUBSCRIBE)? } else { Vec::new() };
            let mut filters = Vec::new();
            while c.rem() > 0 {
                filters.push(c.str("topic filter")?);
            }
            if filters.is_empty() {
                return Err(Malformed::Other("UNSUBSCRIBE without filters"));
            }
            Ok(Pkt::Unsubscribe(Unsubscribe { pid, props, filters }))
        }
        11 => {
            need_flags(0)?;
            let pid = c.pid()?;
            let (props, codes) = if v5 {
                let props = c.props(K_UNSUBACK)?;
                let codes = c.b[c.p..].to_vec();
                for code in &codes {
                    if !reason_ok(K_UNSUBACK, *code) {
                        return Err(Malformed::UnknownReasonCode(*code));
                    }
                }
                (props, codes)
            } else {
                c.done("UNSUBACK")?;
                (Vec::new(), Vec::new())
            };
            Ok(Pkt::UnsubAck(SubAck { pid, props, codes }))
        }
        12 | 13 => {
            need_flags(0)?;
            c.done("PING")?;
            Ok(if ty == 12 { Pkt::PingReq } else { Pkt::PingResp })
        }
        14 | 15 => {
            need_flags(0)?;
            if ty == 15 && !v5 {
                return Err(Malformed::Other("AUTH in v3"));
            }
            let kind = if ty == 14 { K_DISCONNECT } else { K_AUTH };
            let (code, props) = if v5 && c.rem() > 0 {
                let code = c.u8("reason code")?;
                if !reason_ok(kind, code) {
                    return Err(Malformed::UnknownReasonCode(code));
                }
                let props = if c.rem() > 0 { c.props(kind)? } else { Vec::new() };
                (code, props)
            } else {
                (0, Vec::new())
            };
            c.done("DISCONNECT/AUTH")?;
            let d = Disconnect { code, props };
            Ok(if ty == 14 { Pkt::Disconnect(d) } else { Pkt::Auth(d) })
        }
        _ => Err(Malformed::Other("packet type 0")),
    }
}

/// Incremental parser over a growing byte stream (what an endpoint writes).
#[derive(Debug)]
pub struct StreamParser {
    pub ver: Ver,
    pub consumed: usize,
    pub error: Option<(usize, String)>,
}

impl StreamParser {
    pub fn new(ver: Ver) -> Self {
        StreamParser { ver, consumed: 0, error: None }
    }

    /// Parse as many complete packets as `all[self.consumed..]` holds.
    /// Returns (offset, length, packet) triples. Stops for good at the first malformed frame.
    pub fn feed(&mut self, all: &[u8]) -> Vec<(usize, usize, Pkt)> {
        let mut out = Vec::new();
        while self.error.is_none() && self.consumed < all.len() {
            match decode_stream(self.ver, &all[self.consumed..]) {
                Frame::Incomplete => break,
                Frame::BadHeader => {
                    self.error = Some((self.consumed, "bad remaining-length".into()));
                }
                Frame::Complete { len, pkt } => match pkt {
                    Ok(p) => {
                        out.push((self.consumed, len, p));
                        self.consumed += len;
                    }
                    Err(e) => {
                        self.error = Some((self.consumed, format!("{e:?}")));
                    }
                },
            }
        }
        out
    }
}

#[cfg(test)]
mod tests {
    use super::*;

    #[test]
    fn spec_vectors() {
        // MQTT 3.1.1 CONNECT "MQTT" level 4, clean session, ka 60, client id "a"
        let c = Connect::new(Ver::V3, "a", 60);
        let b = encode(Ver::V3, &Pkt::Connect(c.clone()));
        assert_eq!(b, b"\x10\x0d\x00\x04MQTT\x04\x02\x00\x3c\x00\x01a");
        match decode_stream(Ver::V3, &b) {
            Frame::Complete { len, pkt } => {
                assert_eq!(len, b.len());
                assert_eq!(pkt.unwrap(), Pkt::Connect(c));
            }
            _ => panic!(),
        }
        // varint boundaries (spec table 2.4)
        for (v, enc) in [(0u32, vec![0u8]), (127, vec![0x7f]), (128, vec![0x80, 1]), (16_383, vec![0xff, 0x7f]),
            (16_384, vec![0x80, 0x80, 1]), (2_097_151, vec![0xff, 0xff, 0x7f]), (2_097_152, vec![0x80, 0x80, 0x80, 1]),
            (268_435_455, vec![0xff, 0xff, 0xff, 0x7f])] {
            let mut o = Vec::new();
            put_varint(&mut o, v);
            assert_eq!(o, enc);
        }
        // v5 PUBACK short form
        assert_eq!(encode(Ver::V5, &Pkt::PubAck(Ack::ok(5))), b"\x40\x02\x00\x05");
        assert_eq!(encode(Ver::V5, &Pkt::PubAck(Ack::with(5, 0x10))), b"\x40\x03\x00\x05\x10");
        // ping
        assert_eq!(encode(Ver::V3, &Pkt::PingReq), b"\xc0\x00");
    }
}
