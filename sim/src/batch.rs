//! Seeded search: many short, diverse runs across worker threads.
use std::collections::{BTreeMap, BTreeSet};
use std::sync::atomic::{AtomicBool, AtomicU64, Ordering};
use std::sync::{Arc, Mutex};
use std::time::Instant;

use crate::families::Family;
use crate::oracle::{Violation, check_all};
use crate::rng::splitmix64;
use crate::runner::{Mode, RunOut, run_one};

pub fn run_seed(base: u64, family: Family, idx: u64) -> u64 {
    let mut s = base ^ idx.wrapping_mul(0x9E37_79B9_7F4A_7C15) ^ (family as u64).wrapping_mul(0xD1B5_4A32_D192_ED03);
    splitmix64(&mut s)
}

#[derive(Default, Debug, Clone)]
pub struct Found {
    pub count: u64,
    pub first_idx: u64,
    pub first_seed: u64,
    pub example: Option<Violation>,
    pub choices: Vec<u32>,
    pub family: Option<Family>,
}

#[derive(Default, Debug)]
pub struct BatchOut {
    pub evaluations: u64,
    pub found: BTreeMap<String, Found>,
    pub signatures: BTreeSet<u64>,
    pub nontrivial: BTreeSet<u64>,
    pub faults: BTreeMap<String, u64>,
    pub probes: BTreeMap<String, u64>,
    pub by_role: BTreeMap<String, u64>,
    pub sim_ms: u64,
    pub steps: u64,
    pub task_polls: u64,
    pub wall_s: f64,
    pub samples: Vec<String>,
}

pub type Probe = fn(&RunOut) -> bool;

pub fn run_batch(
    family: Family,
    base_seed: u64,
    start: u64,
    runs: u64,
    threads: usize,
    wall_limit_s: f64,
    nontrivial: Probe,
) -> BatchOut {
    let next = Arc::new(AtomicU64::new(start));
    let end = start + runs;
    let stop = Arc::new(AtomicBool::new(false));
    let out = Arc::new(Mutex::new(BatchOut::default()));
    let t0 = Instant::now();
    let mut handles = Vec::new();
    for _ in 0..threads {
        let (next, stop, out) = (next.clone(), stop.clone(), out.clone());
        handles.push(std::thread::spawn(move || {
            let mut local = BatchOut::default();
            loop {
                if stop.load(Ordering::Relaxed) {
                    break;
                }
                let i = next.fetch_add(1, Ordering::Relaxed);
                if i >= end {
                    break;
                }
                if t0.elapsed().as_secs_f64() > wall_limit_s {
                    stop.store(true, Ordering::Relaxed);
                    break;
                }
                let seed = run_seed(base_seed, family, i);
                let r = run_one(family, Mode::Search(seed));
                let vs = check_all(&r);
                local.evaluations += 1;
                local.signatures.insert(r.signature);
                if nontrivial(&r) {
                    local.nontrivial.insert(r.signature);
                }
                for (k, n) in &r.stats.faults {
                    *local.faults.entry((*k).to_string()).or_insert(0) += n;
                }
                for (k, n) in &r.stats.probes {
                    *local.probes.entry((*k).to_string()).or_insert(0) += n;
                }
                *local.by_role.entry(r.plan.role.name().to_string()).or_insert(0) += 1;
                local.sim_ms += r.stats.sim_ms;
                local.steps += r.stats.steps;
                local.task_polls += r.stats.task_polls;
                if local.samples.len() < 2 && i % 7 == 0 {
                    local.samples.push(crate::report::sample_trace(&r, 40));
                }
                for v in vs {
                    let f = local.found.entry(v.key.clone()).or_default();
                    f.count += 1;
                    if f.example.is_none() {
                        f.first_idx = i;
                        f.first_seed = seed;
                        f.example = Some(v);
                        f.choices = r.choices.clone();
                        f.family = Some(family);
                    }
                }
            }
            let mut g = out.lock().unwrap();
            g.evaluations += local.evaluations;
            g.signatures.extend(local.signatures);
            g.nontrivial.extend(local.nontrivial);
            for (k, n) in local.faults {
                *g.faults.entry(k).or_insert(0) += n;
            }
            for (k, n) in local.probes {
                *g.probes.entry(k).or_insert(0) += n;
            }
            for (k, n) in local.by_role {
                *g.by_role.entry(k).or_insert(0) += n;
            }
            g.sim_ms += local.sim_ms;
            g.steps += local.steps;
            g.task_polls += local.task_polls;
            for s in local.samples {
                if g.samples.len() < 3 {
                    g.samples.push(s);
                }
            }
            for (k, f) in local.found {
                let e = g.found.entry(k).or_default();
                let had = e.example.is_some();
                e.count += f.count;
                if !had || f.first_idx < e.first_idx {
                    e.first_idx = f.first_idx;
                    e.first_seed = f.first_seed;
                    e.example = f.example;
                    e.choices = f.choices;
                    e.family = f.family;
                }
            }
        }));
    }
    for h in handles {
        let _ = h.join();
    }
    let mut o = Arc::try_unwrap(out).map(|m| m.into_inner().unwrap()).unwrap_or_default();
    o.wall_s = t0.elapsed().as_secs_f64();
    o
}

/// Digests of runs 0..n of a family (for the determinism self-test). `reverse` walks the
/// indices in the opposite order so that each seed lands at a different batch position.
pub fn digests(family: Family, base_seed: u64, n: u64, threads: usize, reverse: bool) -> Vec<u64> {
    let next = Arc::new(AtomicU64::new(0));
    let out = Arc::new(Mutex::new(vec![0u64; n as usize]));
    let mut hs = Vec::new();
    for _ in 0..threads {
        let (next, out) = (next.clone(), out.clone());
        hs.push(std::thread::spawn(move || {
            loop {
                let k = next.fetch_add(1, Ordering::Relaxed);
                if k >= n {
                    break;
                }
                let i = if reverse { n - 1 - k } else { k };
                let r = run_one(family, Mode::Search(run_seed(base_seed, family, i)));
                let mut f = crate::rng::Fnv::default();
                f.write_u64(r.digest);
                f.write_u64(r.choices.len() as u64);
                for v in check_all(&r) {
                    f.write_str(&v.key);
                }
                out.lock().unwrap()[i as usize] = f.0;
            }
        }));
    }
    for h in hs {
        let _ = h.join();
    }
    Arc::try_unwrap(out).unwrap().into_inner().unwrap()
}
