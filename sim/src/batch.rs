//! Seeded search: many short, diverse runs across worker threads.
use std::collections::{BTreeMap, BTreeSet};
use std::sync::atomic::{AtomicBool, AtomicU64, Ordering};
use std::sync::{Arc, Mutex};
use std::time::Instant;

use crate::families::Family;
use crate::oracle::{Violation, check_all};
use crate::rng::splitmix64;
use crate::runner::{Mode, RunOut, run_one};

pub fn run_seed(base: u64, family: Family, idx: u64) -> u64 {
    let mut s = base ^ idx.wrapping_mul(0x9E37_79B9_7F4A_7C15) ^ (family as u64).wrapping_mul(0xD1B5_4A32_D192_ED03);
    splitmix64(&mut s)
}

/// The run with index `idx` of a family. Search families: one seed per index. Enumerating families
/// (C07X): the index is decomposed into (base scenario, fault point); the fault point becomes the
/// leading draws and everything else is drawn from the base scenario's seed.
pub fn mode_of(base: u64, family: Family, idx: u64) -> (Mode, u64) {
    match family {
        Family::C07X => {
            let per = crate::families::C07X_PER_BASE;
            let seed = run_seed(base, family, idx / per);
            let (cause, pos) = crate::families::c07x_point(idx % per);
            (Mode::Prefix(vec![cause, pos], seed), seed)
        }
        Family::C04X => {
            // request set (and schedule draws) from the set's seed; completion order and mix enumerated
            let per = crate::families::C04X_PER_SET;
            let seed = run_seed(base, family, idx / per);
            (Mode::Prefix(crate::families::c04x_point(idx % per), seed), seed)
        }
        Family::C11X => {
            let seed = run_seed(base, family, idx);
            (Mode::Prefix(crate::families::c11x_point(idx % crate::families::c11x_total()), seed), seed)
        }
        Family::C06L => {
            let seed = run_seed(base, family, idx);
            (Mode::Prefix(vec![(idx % 4) as u32], seed), seed)
        }
        Family::C13X => {
            let seed = run_seed(base, family, idx);
            (Mode::Prefix(crate::families::c13x_point(idx % crate::families::c13x_total()), seed), seed)
        }
        Family::C16X => {
            // every point of the enumeration, round after round; each execution has its own schedule seed
            let seed = run_seed(base, family, idx);
            (Mode::Prefix(crate::families::c16x_point(idx % crate::families::c16x_total()), seed), seed)
        }
        _ => {
            let seed = run_seed(base, family, idx);
            (Mode::Search(seed), seed)
        }
    }
}

#[derive(Default, Debug, Clone)]
pub struct Found {
    pub count: u64,
    pub first_idx: u64,
    pub first_seed: u64,
    pub example: Option<Violation>,
    pub choices: Vec<u32>,
    pub family: Option<Family>,
}

#[derive(Default, Debug)]
pub struct BatchOut {
    pub evaluations: u64,
    pub found: BTreeMap<String, Found>,
    pub signatures: BTreeSet<u64>,
    pub nontrivial: BTreeSet<u64>,
    pub faults: BTreeMap<String, u64>,
    pub probes: BTreeMap<String, u64>,
    pub by_role: BTreeMap<String, u64>,
    pub sim_ms: u64,
    pub steps: u64,
    pub task_polls: u64,
    pub wall_s: f64,
    pub samples: Vec<String>,
}

pub type Probe = fn(&RunOut) -> bool;

pub fn run_batch(
    family: Family,
    base_seed: u64,
    start: u64,
    runs: u64,
    threads: usize,
    wall_limit_s: f64,
    nontrivial: Probe,
) -> BatchOut {
    let next = Arc::new(AtomicU64::new(start));
    let end = start + runs;
    let stop = Arc::new(AtomicBool::new(false));
    let out = Arc::new(Mutex::new(BatchOut::default()));
    let t0 = Instant::now();
    let mut handles = Vec::new();
    for _ in 0..threads {
        let (next, stop, out) = (next.clone(), stop.clone(), out.clone());
        handles.push(std::thread::spawn(move || {
            let mut local = BatchOut::default();
            loop {
                if stop.load(Ordering::Relaxed) {
                    break;
                }
                let i = next.fetch_add(1, Ordering::Relaxed);
                if i >= end {
                    break;
                }
                if t0.elapsed().as_secs_f64() > wall_limit_s {
                    stop.store(true, Ordering::Relaxed);
                    break;
                }
                let (mode, seed) = mode_of(base_seed, family, i);
                let r = run_one(family, mode);
                let vs = check_all(&r);
                local.evaluations += 1;
                local.signatures.insert(r.signature);
                if nontrivial(&r) {
                    local.nontrivial.insert(r.signature);
                }
                for (k, n) in &r.stats.faults {
                    *local.faults.entry((*k).to_string()).or_insert(0) += n;
                }
                for (k, n) in &r.stats.probes {
                    *local.probes.entry((*k).to_string()).or_insert(0) += n;
                }
                *local.by_role.entry(r.plan.role.name().to_string()).or_insert(0) += 1;
                local.sim_ms += r.stats.sim_ms;
                local.steps += r.stats.steps;
                local.task_polls += r.stats.task_polls;
                if local.samples.len() < 2 && i % 7 == 0 {
                    local.samples.push(crate::report::sample_trace(&r, 40));
                }
                for v in vs {
                    let f = local.found.entry(v.key.clone()).or_default();
                    f.count += 1;
                    if f.example.is_none() {
                        f.first_idx = i;
                        f.first_seed = seed;
                        f.example = Some(v);
                        f.choices = r.choices.clone();
                        f.family = Some(family);
                    }
                }
            }
            let mut g = out.lock().unwrap();
            g.evaluations += local.evaluations;
            g.signatures.extend(local.signatures);
            g.nontrivial.extend(local.nontrivial);
            for (k, n) in local.faults {
                *g.faults.entry(k).or_insert(0) += n;
            }
            for (k, n) in local.probes {
                *g.probes.entry(k).or_insert(0) += n;
            }
            for (k, n) in local.by_role {
                *g.by_role.entry(k).or_insert(0) += n;
            }
            g.sim_ms += local.sim_ms;
            g.steps += local.steps;
            g.task_polls += local.task_polls;
            for s in local.samples {
                if g.samples.len() < 3 {
                    g.samples.push(s);
                }
            }
            for (k, f) in local.found {
                let e = g.found.entry(k).or_default();
                let had = e.example.is_some();
                e.count += f.count;
                if !had || f.first_idx < e.first_idx {
                    e.first_idx = f.first_idx;
                    e.first_seed = f.first_seed;
                    e.example = f.example;
                    e.choices = f.choices;
                    e.family = f.family;
                }
            }
        }));
    }
    for h in handles {
        let _ = h.join();
    }
    let mut o = Arc::try_unwrap(out).map(|m| m.into_inner().unwrap()).unwrap_or_default();
    o.wall_s = t0.elapsed().as_secs_f64();
    o
}

/// Digests of runs 0..n of a family (for the determinism self-test). `reverse` walks the
/// indices in the opposite order so that each seed lands at a different batch position.
pub fn digests(family: Family, base_seed: u64, n: u64, threads: usize, reverse: bool) -> Vec<u64> {
    let next = Arc::new(AtomicU64::new(0));
    let out = Arc::new(Mutex::new(vec![0u64; n as usize]));
    let mut hs = Vec::new();
    for _ in 0..threads {
        let (next, out) = (next.clone(), out.clone());
        hs.push(std::thread::spawn(move || {
            loop {
                let k = next.fetch_add(1, Ordering::Relaxed);
                if k >= n {
                    break;
                }
                let i = if reverse { n - 1 - k } else { k };
                let r = run_one(family, mode_of(base_seed, family, i).0);
                let mut f = crate::rng::Fnv::default();
                f.write_u64(r.digest);
                f.write_u64(r.choices.len() as u64);
                for v in check_all(&r) {
                    f.write_str(&v.key);
                }
                out.lock().unwrap()[i as usize] = f.0;
            }
        }));
    }
    for h in hs {
        let _ = h.join();
    }
    Arc::try_unwrap(out).unwrap().into_inner().unwrap()
}


// ---------------------------------------------------------------------------------------------
// Long batches run in child processes: every run uses a fresh thread, and the libraries under test
// keep per-thread pools that are leaked by design (about 100 KB per run), so one process must not
// execute millions of runs. A chunk is a pure function of (family, base seed, start, count); the
// union of the chunks is the batch.

pub const CHUNK: u64 = 50_000;

fn static_prop(p: &str) -> &'static str {
    const ALL: [&str; 21] = [
        "C01", "C02", "C03", "C04", "C05", "C06", "C07", "C08", "C09", "C10", "C11", "C12", "C13", "C14", "C15", "C16", "C17", "C18", "C19", "C20", "HARNESS",
    ];
    ALL.iter().copied().find(|x| *x == p).unwrap_or("HARNESS")
}

pub fn to_json(o: &BatchOut) -> serde_json::Value {
    use serde_json::json;
    let found: Vec<serde_json::Value> = o
        .found
        .iter()
        .map(|(k, f)| {
            json!({
                "key": k,
                "count": f.count,
                "first_idx": f.first_idx,
                "first_seed": f.first_seed.to_string(),
                "prop": f.example.as_ref().map(|e| e.prop),
                "msg": f.example.as_ref().map(|e| e.msg.clone()),
                "at_seq": f.example.as_ref().map(|e| e.at_seq),
                "choices": f.choices,
                "family": f.family.map(|x| x.name()),
            })
        })
        .collect();
    json!({
        "evaluations": o.evaluations,
        "found": found,
        "signatures": o.signatures.iter().map(|s| s.to_string()).collect::<Vec<_>>(),
        "nontrivial": o.nontrivial.iter().map(|s| s.to_string()).collect::<Vec<_>>(),
        "faults": o.faults,
        "probes": o.probes,
        "by_role": o.by_role,
        "sim_ms": o.sim_ms,
        "steps": o.steps,
        "task_polls": o.task_polls,
        "wall_s": o.wall_s,
        "samples": o.samples,
    })
}

pub fn from_json(v: &serde_json::Value) -> Option<BatchOut> {
    let mut o = BatchOut { evaluations: v["evaluations"].as_u64()?, ..Default::default() };
    for f in v["found"].as_array()? {
        let key = f["key"].as_str()?.to_string();
        let prop = static_prop(f["prop"].as_str().unwrap_or("HARNESS"));
        let example = f["msg"].as_str().map(|m| Violation { prop, key: key.clone(), msg: m.to_string(), at_seq: f["at_seq"].as_u64().unwrap_or(0) });
        o.found.insert(
            key,
            Found {
                count: f["count"].as_u64()?,
                first_idx: f["first_idx"].as_u64()?,
                first_seed: f["first_seed"].as_str()?.parse().ok()?,
                example,
                choices: f["choices"].as_array()?.iter().filter_map(|c| c.as_u64().map(|x| x as u32)).collect(),
                family: f["family"].as_str().and_then(Family::parse),
            },
        );
    }
    for s in v["signatures"].as_array()? {
        o.signatures.insert(s.as_str()?.parse().ok()?);
    }
    for s in v["nontrivial"].as_array()? {
        o.nontrivial.insert(s.as_str()?.parse().ok()?);
    }
    for (name, dst) in [("faults", &mut o.faults), ("probes", &mut o.probes), ("by_role", &mut o.by_role)] {
        for (k, n) in v[name].as_object()? {
            dst.insert(k.clone(), n.as_u64()?);
        }
    }
    o.sim_ms = v["sim_ms"].as_u64()?;
    o.steps = v["steps"].as_u64()?;
    o.task_polls = v["task_polls"].as_u64()?;
    o.wall_s = v["wall_s"].as_f64().unwrap_or(0.0);
    o.samples = v["samples"].as_array()?.iter().filter_map(|s| s.as_str().map(str::to_string)).collect();
    Some(o)
}

pub fn merge(into: &mut BatchOut, o: BatchOut) {
    into.evaluations += o.evaluations;
    into.signatures.extend(o.signatures);
    into.nontrivial.extend(o.nontrivial);
    for (k, n) in o.faults {
        *into.faults.entry(k).or_insert(0) += n;
    }
    for (k, n) in o.probes {
        *into.probes.entry(k).or_insert(0) += n;
    }
    for (k, n) in o.by_role {
        *into.by_role.entry(k).or_insert(0) += n;
    }
    into.sim_ms += o.sim_ms;
    into.steps += o.steps;
    into.task_polls += o.task_polls;
    for s in o.samples {
        if into.samples.len() < 3 {
            into.samples.push(s);
        }
    }
    for (k, f) in o.found {
        let e = into.found.entry(k).or_default();
        let had = e.example.is_some();
        e.count += f.count;
        if !had || f.first_idx < e.first_idx {
            e.first_idx = f.first_idx;
            e.first_seed = f.first_seed;
            e.example = f.example;
            e.choices = f.choices;
            e.family = f.family;
        }
    }
}

/// Run a batch of any size: in-process up to one chunk, otherwise chunk by chunk in child processes
/// (`dst batchjson <prop> <family> <seed> <start> <count>`). Returns Err on a harness problem.
pub fn run_batch_auto(prop: &str, family: Family, base_seed: u64, runs: u64, threads: usize, wall_limit_s: f64, nontrivial: Probe) -> Result<BatchOut, String> {
    if runs <= CHUNK {
        return Ok(run_batch(family, base_seed, 0, runs, threads, wall_limit_s, nontrivial));
    }
    let exe = std::env::current_exe().map_err(|e| format!("current_exe: {e}"))?;
    let t0 = Instant::now();
    let mut all = BatchOut::default();
    let mut start = 0u64;
    while start < runs && t0.elapsed().as_secs_f64() < wall_limit_s {
        let n = CHUNK.min(runs - start);
        let out = std::process::Command::new(&exe)
            .args(["batchjson", prop, family.name(), &base_seed.to_string(), &start.to_string(), &n.to_string()])
            .env("DST_THREADS", threads.to_string())
            .output()
            .map_err(|e| format!("spawn chunk: {e}"))?;
        if !out.status.success() {
            return Err(format!("chunk {start}+{n} of {} exited with {:?}: {}", family.name(), out.status.code(), String::from_utf8_lossy(&out.stderr).lines().last().unwrap_or("")));
        }
        let v: serde_json::Value = serde_json::from_slice(&out.stdout).map_err(|e| format!("chunk output: {e}"))?;
        let o = from_json(&v).ok_or("chunk output: unexpected shape")?;
        merge(&mut all, o);
        start += n;
    }
    all.wall_s = t0.elapsed().as_secs_f64();
    Ok(all)
}
