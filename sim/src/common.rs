//! Helpers shared by the application stubs.
use ntex_bytes::ByteString;
use ntex_io::IoConfig;
use ntex_mqtt::MqttServiceConfig;
use ntex_mqtt::v5::codec as c5;
use ntex_service::cfg::SharedCfg;
use ntex_util::time::Seconds;

use crate::plan::EpCfg;
use crate::rng::Fnv;

/// The one application error type used by every stub service.
#[derive(Debug, Clone, PartialEq, Eq)]
pub enum AppErr {
    /// maps to a negative PUBACK/PUBREC with this reason code (v5)
    Neg(u8),
    /// cannot be mapped: the connection must end
    Fatal,
}

impl From<()> for AppErr {
    fn from((): ()) -> Self {
        AppErr::Fatal
    }
}

pub fn conn_of_client_id(id: &str) -> usize {
    id.strip_prefix('c').and_then(|s| s.parse::<usize>().ok()).unwrap_or(0)
}

pub fn qos_of(q: u8) -> ntex_mqtt::QoS {
    match q {
        0 => ntex_mqtt::QoS::AtMostOnce,
        1 => ntex_mqtt::QoS::AtLeastOnce,
        _ => ntex_mqtt::QoS::ExactlyOnce,
    }
}

pub fn shared_cfg(cfg: &EpCfg) -> SharedCfg {
    let mut m = MqttServiceConfig::new()
        .set_max_qos(qos_of(cfg.max_qos))
        .set_max_size(cfg.max_size)
        .set_max_receive(cfg.max_receive)
        .set_max_receive_size(cfg.max_receive_size)
        .set_max_topic_alias(cfg.max_topic_alias)
        .set_max_send(cfg.max_send)
        .set_min_chunk_size(cfg.min_chunk)
        .set_max_payload_buffer_size(cfg.max_payload_buf)
        .set_connect_timeout(Seconds(cfg.connect_timeout_s))
        .set_handshake_timeout(Seconds(cfg.client_handshake_timeout_s))
        .set_handle_qos_after_disconnect(cfg.handle_qos_after_disconnect.map(qos_of));
    let _ = &mut m;
    let mut io = IoConfig::new()
        .set_write_buf(cfg.wr_hw, cfg.wr_lw, 16)
        .set_read_buf(cfg.rd_hw, (cfg.rd_hw / 8).max(16), 16)
        .set_disconnect_timeout(Seconds(cfg.disconnect_timeout_s));
    if let Some((t, mt, r)) = cfg.frame_read_rate {
        io = io.set_frame_read_rate(Seconds(t), Seconds(mt), r);
    }
    SharedCfg::new("SIM").add(m).add(io).into()
}

/// The same signature computed from a packet of the independent codec (user properties in wire order, then
/// the reason string): what the application must be handed for an acknowledgement the peer sent.
pub fn rc_props_sig(props: &crate::refcodec::Props) -> u64 {
    use crate::refcodec::PropVal;
    let users: Vec<(&String, &String)> = props.iter().filter_map(|(id, v)| match (id, v) { (38, PropVal::Pair(k, v)) => Some((k, v)), _ => None }).collect();
    let reason = props.iter().find_map(|(id, v)| match (id, v) { (31, PropVal::Str(s)) => Some(s), _ => None });
    if users.is_empty() && reason.is_none() {
        return 0;
    }
    let mut f = Fnv::default();
    for (k, v) in users {
        sig_str(&mut f, k);
        sig_str(&mut f, v);
    }
    if let Some(r) = reason {
        f.write(b"R");
        sig_str(&mut f, r);
    }
    f.0
}

fn sig_str(f: &mut Fnv, s: &str) {
    f.write_str(s);
}

pub fn user_props_sig(props: &c5::UserProperties, reason: Option<&ByteString>) -> u64 {
    if props.is_empty() && reason.is_none() {
        return 0;
    }
    let mut f = Fnv::default();
    for (k, v) in props {
        sig_str(&mut f, k);
        sig_str(&mut f, v);
    }
    if let Some(r) = reason {
        f.write(b"R");
        sig_str(&mut f, r);
    }
    f.0
}

/// Order-insensitive (for user properties: order-preserving) digest of PUBLISH properties,
/// computed the same way from refcodec's generic property list (see `props_sig_ref`).
pub fn props_sig_v5(p: &c5::PublishProperties) -> u64 {
    let mut items: Vec<(u8, Vec<u8>)> = Vec::new();
    if let Some(a) = p.topic_alias {
        items.push((35, a.get().to_be_bytes().to_vec()));
    }
    if let Some(v) = &p.correlation_data {
        items.push((9, v.to_vec()));
    }
    if let Some(v) = p.message_expiry_interval {
        items.push((2, v.get().to_be_bytes().to_vec()));
    }
    if let Some(v) = &p.content_type {
        items.push((3, v.as_bytes().to_vec()));
    }
    if p.is_utf8_payload {
        items.push((1, vec![1]));
    }
    if let Some(v) = &p.response_topic {
        items.push((8, v.as_bytes().to_vec()));
    }
    for id in &p.subscription_ids {
        items.push((11, id.get().to_be_bytes().to_vec()));
    }
    for (k, v) in &p.user_properties {
        let mut b = k.as_bytes().to_vec();
        b.push(0);
        b.extend_from_slice(v.as_bytes());
        items.push((38, b));
    }
    sig_items(items)
}

pub fn sig_items(mut items: Vec<(u8, Vec<u8>)>) -> u64 {
    if items.is_empty() {
        return 0;
    }
    // stable sort by id keeps the relative order of repeated properties
    items.sort_by_key(|(id, _)| *id);
    let mut f = Fnv::default();
    for (id, v) in items {
        f.write(&[id]);
        f.write_u64(v.len() as u64);
        f.write(&v);
    }
    f.0
}

pub fn props_sig_ref(props: &crate::refcodec::Props) -> u64 {
    use crate::refcodec::PropVal;
    let mut items: Vec<(u8, Vec<u8>)> = Vec::new();
    for (id, v) in props {
        if *id == 1 && *v == PropVal::Byte(0) {
            // Payload Format Indicator 0 is the same as absent
            continue;
        }
        let b = match v {
            PropVal::Byte(b) => vec![*b],
            PropVal::U16(x) => x.to_be_bytes().to_vec(),
            PropVal::U32(x) | PropVal::VarInt(x) => x.to_be_bytes().to_vec(),
            PropVal::Str(s) => s.as_bytes().to_vec(),
            PropVal::Bin(b) => b.clone(),
            PropVal::Pair(k, v) => {
                let mut b = k.as_bytes().to_vec();
                b.push(0);
                b.extend_from_slice(v.as_bytes());
                b
            }
        };
        items.push((*id, b));
    }
    sig_items(items)
}

/// Digest of the CONNECT the handshake service sees (fields the peer chose).
pub fn connect_sig_v5(c: &c5::Connect) -> u64 {
    let mut f = Fnv::default();
    f.write_str(&c.client_id);
    f.write_u64(u64::from(c.keep_alive));
    f.write_u64(u64::from(c.clean_start));
    f.write_u64(u64::from(c.session_expiry_interval_secs));
    f.write_u64(c.receive_max.map_or(0, |v| u64::from(v.get())));
    f.write_u64(c.max_packet_size.map_or(0, |v| u64::from(v.get())));
    f.write_u64(u64::from(c.topic_alias_max));
    if let Some(u) = &c.username {
        f.write_str(u);
    }
    if let Some(p) = &c.password {
        f.write(p);
    }
    if let Some(w) = &c.last_will {
        f.write_str(&w.topic);
        f.write(&w.message);
    }
    f.0
}

pub fn connect_sig_ref(c: &crate::refcodec::Connect) -> u64 {
    use crate::refcodec::{prop_u16, prop_u32};
    let mut f = Fnv::default();
    f.write_str(&c.client_id);
    f.write_u64(u64::from(c.keep_alive));
    f.write_u64(u64::from(c.clean_start));
    f.write_u64(u64::from(prop_u32(&c.props, 17).unwrap_or(0)));
    f.write_u64(u64::from(prop_u16(&c.props, 33).unwrap_or(0)));
    f.write_u64(u64::from(prop_u32(&c.props, 39).unwrap_or(0)));
    f.write_u64(u64::from(prop_u16(&c.props, 34).unwrap_or(0)));
    if let Some(u) = &c.username {
        f.write_str(u);
    }
    if let Some(p) = &c.password {
        f.write(p);
    }
    if let Some(w) = &c.will {
        f.write_str(&w.topic);
        f.write(&w.payload);
    }
    f.0
}


/// A stub service with the two behaviours `fn_service` cannot show: a readiness check that starts to fail
/// (`World::svc_ready_failed`) and a shutdown that takes simulated time (`World::svc_shutdown`).
pub struct GSvc<F> {
    pub w: std::rc::Rc<crate::world::World>,
    pub conn: usize,
    pub f: F,
}

impl<F, Req, Fut, Res> ntex_service::Service<Req> for GSvc<F>
where
    F: Fn(Req) -> Fut,
    Fut: std::future::Future<Output = Result<Res, AppErr>>,
{
    type Response = Res;
    type Error = AppErr;

    async fn call(&self, req: Req, _: ntex_service::ServiceCtx<'_, Self>) -> Result<Res, AppErr> {
        (self.f)(req).await
    }

    async fn ready(&self, _: ntex_service::ServiceCtx<'_, Self>) -> Result<(), AppErr> {
        if self.w.svc_ready_failed(self.conn) { Err(AppErr::Fatal) } else { Ok(()) }
    }

    async fn shutdown(&self) {
        self.w.svc_shutdown(self.conn).await;
    }
}
