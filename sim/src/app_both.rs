//! Combined server: `ntex_mqtt::MqttServer` sniffs the protocol level of the first packet and hands
//! the connection to the MQTT 3.1.1 or the MQTT 5 service. Same application stubs as the two plain
//! servers.
use std::rc::Rc;

use ntex_mqtt::v3;
use ntex_mqtt::v5;
use ntex_service::cfg::SharedCfg;
use ntex_service::{fn_factory_with_config, fn_service};

use ntex_mqtt::Control;

use crate::app_v3::{v3_factory, St as St3};
use crate::app_v5::{serve_all, v5_parts, St as St5};
use crate::common::{AppErr, shared_cfg};
use crate::plan::Plan;
use crate::world::{Ev, World};

pub async fn run_server(w: Rc<World>, plan: Rc<Plan>) {
    let cfg: SharedCfg = shared_cfg(&plan.cfg);
    let f3 = {
        use crate::app_v3::{control_handler, handshake_handler, proto_handler, publish_handler, start_senders};
        type St = St3;
        v3_factory!(w.clone(), plan.clone())
    };
    let f5 = {
        use crate::app_v5::{control_handler, handshake_handler, proto_handler, publish_handler, start_senders};
        type St = St5;
        let (hs, ctl, proto, publish) = v5_parts!(w.clone(), plan.clone());
        v5::MqttServer::new(hs).control(ctl).protocol(proto).publish(publish)
    };
    let factory = ntex_mqtt::MqttServer::new().v3(f3).v5(f5);
    serve_all(factory, w, plan, cfg).await;
}
