//! Running one simulation on a fresh OS thread with crash containment.
use std::cell::RefCell;
use std::panic::{self, AssertUnwindSafe};
use std::rc::Rc;
use std::sync::{Once, mpsc};

use ntex_rt::Runtime;

use crate::choice::Choices;
use crate::driver::{NoopNotify, SimDriver};
use crate::families::Family;
use crate::plan::Plan;
use crate::refcodec::Pkt;
use crate::rng::Fnv;
use crate::world::{Ev, Event, Gate, Role, Stats, World};

#[derive(Clone, Debug)]
pub enum Mode {
    Search(u64),
    Replay(Vec<u32>),
    /// replay a prefix, then continue with fresh draws
    Prefix(Vec<u32>, u64),
}

#[derive(Debug, Clone)]
pub struct GateSnap {
    pub id: usize,
    pub exited: bool,
    pub dropped: bool,
    pub parked: bool,
    pub opened: bool,
}

#[derive(Debug, Clone)]
pub struct SenderSnap {
    pub next_op: usize,
    pub n_ops: usize,
    pub waiting: bool,
    pub busy: bool,
    pub finished: bool,
}

#[derive(Debug, Clone)]
pub struct PeerSnap {
    pub rx: Vec<(u64, Pkt)>,
    pub owed_left: usize,
    pub connected: bool,
    pub max_window: u32,
    pub parse_error: Option<(usize, String)>,
    pub out_len: usize,
    pub consumed: usize,
    pub inflight_left: usize,
    pub ep_closed: bool,
    pub script_left: usize,
}

pub struct RunOut {
    pub plan: Plan,
    pub hist: Vec<Event>,
    pub stats: Stats,
    pub choices: Vec<u32>,
    pub clamped: u64,
    pub panic: Option<String>,
    pub budget_hit: bool,
    pub conn_done: Vec<Option<String>>,
    pub gates: Vec<GateSnap>,
    pub senders: Vec<SenderSnap>,
    pub peers: Vec<PeerSnap>,
    pub setup_error: Option<String>,
    pub digest: u64,
    pub signature: u64,
    pub runnable_left: usize,
    pub armed_left: usize,
    /// violations established while the run proceeded (codec-level families)
    pub pre_violations: Vec<crate::oracle::Violation>,
}

thread_local! {
    static PANIC_MSG: RefCell<Option<String>> = const { RefCell::new(None) };
}

static HOOK: Once = Once::new();

pub fn install_panic_hook() {
    HOOK.call_once(|| {
        let default = panic::take_hook();
        panic::set_hook(Box::new(move |info| {
            let in_sim = std::thread::current().name().is_some_and(|n| n.starts_with("sim-"));
            if in_sim {
                let loc = info.location().map(|l| format!("{}:{}", l.file(), l.line())).unwrap_or_default();
                let msg = if let Some(s) = info.payload().downcast_ref::<&str>() {
                    (*s).to_string()
                } else if let Some(s) = info.payload().downcast_ref::<String>() {
                    s.clone()
                } else {
                    "<non-string panic>".to_string()
                };
                PANIC_MSG.with(|p| {
                    let mut p = p.borrow_mut();
                    if p.is_none() {
                        *p = Some(format!("{msg} @ {loc}"));
                    }
                });
            } else {
                default(info);
            }
        }));
    });
}

fn gate_snap(g: &Gate) -> GateSnap {
    GateSnap { id: g.id, exited: g.exited, dropped: g.dropped, parked: g.parked, opened: g.opened.is_some() }
}

fn abstract_ev(e: &Ev) -> Option<String> {
    Some(match e {
        Ev::PeerSend { conn, pkt, corrupt, .. } => format!(
            "ps{conn}:{}{}",
            pkt.as_ref().map_or_else(|| "raw".to_string(), Pkt::brief),
            if corrupt.is_some() { "!" } else { "" }
        ),
        Ev::Deliver { conn, .. } => format!("dl{conn}"),
        Ev::PeerClose { conn, rst } => format!("pc{conn}{rst}"),
        Ev::EpPacket { conn, pkt, .. } => format!("ep{conn}:{}", pkt.brief()),
        Ev::EpGarbage { conn, .. } => format!("gb{conn}"),
        Ev::EpClosed { conn } => format!("ec{conn}"),
        Ev::GateEnter { gate, kind, immediate, .. } => format!("ge{gate}{kind:?}{immediate}"),
        Ev::GateOpen { gate, outcome } => format!("go{gate}{}", outcome.brief()),
        Ev::GateExit { gate, outcome } => format!("gx{gate}{}", outcome.brief()),
        Ev::GateDropped { gate } => format!("gd{gate}"),
        Ev::PayloadPiece { gate, .. } => format!("pp{gate}"),
        Ev::PayloadWait { .. } => return None,
        Ev::Session { conn } => format!("ss{conn}"),
        Ev::PayloadEnd { gate, err, .. } => format!("pe{gate}{}", err.is_some()),
        Ev::Control { conn, wr, stop } => format!("ct{conn}{wr:?}{}", stop.as_ref().map_or(String::new(), |s| format!("{s:?}"))),
        Ev::OpStart { sender, op, .. } => format!("os{sender}.{op}"),
        Ev::OpDone { sender, op, res } => format!(
            "od{sender}.{op}{}",
            match res {
                crate::world::OpResult::Ok(a) => a.what,
                crate::world::OpResult::Err(_) => "err",
                crate::world::OpResult::Cancelled => "cancel",
            }
        ),
        Ev::OpCancel { sender, op } => format!("oc{sender}.{op}"),
        Ev::AckCb { pid, disc, .. } => format!("cb{pid}{disc}"),
        Ev::ConnDone { conn, .. } => format!("cd{conn}"),
        Ev::Fault { kind, .. } => format!("f:{kind}"),
        Ev::Phase { name } => format!("ph:{name}"),
        Ev::EpWrite { .. } | Ev::Clock { .. } | Ev::Note { .. } | Ev::PeerRaw { .. } => return None,
    })
}

fn run_in_thread(family: Family, mode: Mode) -> RunOut {
    let ch = match mode {
        Mode::Search(seed) => Choices::search(seed),
        Mode::Replay(list) => Choices::replay(list),
        Mode::Prefix(list, seed) => Choices::replay_then_search(list, seed),
    };
    if matches!(family, Family::C02 | Family::C10) {
        // codec-level simulation: no runtime, the decoder under a simulated transport
        let res = panic::catch_unwind(AssertUnwindSafe(|| crate::codecsim::run(family, ch)));
        return match res {
            Ok(out) => out,
            Err(_) => {
                let msg = PANIC_MSG.with(|p| p.borrow_mut().take()).unwrap_or_else(|| "<panic>".into());
                let mut ch2 = Choices::search(0);
                RunOut {
                    plan: crate::families::base_plan(if family == Family::C02 { "C02" } else { "C10" }, Role::S5, &mut ch2),
                    hist: Vec::new(),
                    stats: crate::world::Stats::default(),
                    choices: crate::codecsim::take_log(),
                    clamped: 0,
                    panic: Some(msg),
                    budget_hit: false,
                    conn_done: Vec::new(),
                    gates: Vec::new(),
                    senders: Vec::new(),
                    peers: Vec::new(),
                    setup_error: None,
                    digest: 0,
                    signature: 0,
                    runnable_left: 0,
                    armed_left: 0,
                    pre_violations: Vec::new(),
                }
            }
        };
    }
    let w = World::new(ch);
    let plan = {
        let mut ch = w.ch.borrow_mut();
        Rc::new(crate::families::generate(family, &mut ch))
    };
    w.p_immediate.set(plan.p_immediate);
    w.p_hold.set(plan.p_hold);
    w.p_hold_ctl.set(plan.p_hold_ctl);
    w.w_outcome.set(plan.w_outcome);
    w.w_payload.set(plan.w_payload);
    *w.immediate_mask.borrow_mut() = plan.immediate_mask.clone();
    w.ready_fail_after.set(plan.cfg.svc_ready_fail_after);
    w.slow_shutdown.set(plan.cfg.svc_slow_shutdown);
    w.ack_props.set(plan.cfg.ack_props);

    let driver = SimDriver::new(w.clone(), plan.clone());
    let rt = Runtime::builder().event_interval(1).build(Box::new(NoopNotify));
    let (w2, p2) = (w.clone(), plan.clone());
    let res = panic::catch_unwind(AssertUnwindSafe(|| {
        rt.block_on(
            async move {
                match p2.role {
                    Role::S5 | Role::S3 if p2.cfg.combined => crate::app_both::run_server(w2.clone(), p2.clone()).await,
                    Role::S5 => crate::app_v5::run_server(w2.clone(), p2.clone()).await,
                    Role::S3 => crate::app_v3::run_server(w2.clone(), p2.clone()).await,
                    Role::C5 => crate::app_v5::run_client(w2.clone(), p2.clone()).await,
                    Role::C3 => crate::app_v3::run_client(w2.clone(), p2.clone()).await,
                }
                w2.wait_finished().await;
            },
            &driver,
        );
    }));
    let runnable_left = rt.sim_runnable_len();
    let armed_left = ntex_util::time::simclock::armed();
    let mut panic_msg = None;
    if res.is_err() {
        panic_msg = Some(PANIC_MSG.with(|p| p.borrow_mut().take()).unwrap_or_else(|| "<panic>".into()));
    }

    let hist: Vec<Event> = w.hist.borrow().clone();
    let mut dig = Fnv::default();
    let mut sig = Fnv::default();
    for e in &hist {
        dig.write_u64(e.seq);
        dig.write_u64(e.t_ms);
        dig.write_str(&format!("{:?}", e.ev));
        if let Some(a) = abstract_ev(&e.ev) {
            sig.write_str(&a);
        }
    }
    let st = driver.st.borrow();
    let peers: Vec<PeerSnap> = st
        .peers
        .iter()
        .enumerate()
        .map(|(c, p)| {
            let wire = w.wire(c);
            let ws = wire.0.borrow();
            PeerSnap {
                rx: p.rx.clone(),
                owed_left: p.owed.len(),
                connected: p.connected,
                max_window: p.max_window,
                parse_error: p.parser.error.clone(),
                out_len: ws.out.len(),
                consumed: p.parser.consumed,
                inflight_left: ws.inflight.len(),
                ep_closed: ws.ep_closed || ws.ep_dropped,
                script_left: self_script_left(&plan, p.script_pos),
            }
        })
        .collect();
    let out = RunOut {
        plan: (*plan).clone(),
        hist,
        stats: w.stats.borrow().clone(),
        choices: w.ch.borrow().log.clone(),
        clamped: w.ch.borrow().clamped,
        panic: panic_msg,
        budget_hit: st.budget_hit,
        conn_done: w.conn_done.borrow().clone(),
        gates: w.gates.borrow().iter().map(gate_snap).collect(),
        senders: w
            .senders
            .borrow()
            .iter()
            .map(|s| SenderSnap { next_op: s.next_op, n_ops: s.n_ops, waiting: s.waiting, busy: s.busy, finished: s.finished })
            .collect(),
        peers,
        setup_error: w.setup_error.borrow().clone(),
        digest: dig.0,
        signature: sig.0,
        runnable_left,
        armed_left,
        pre_violations: Vec::new(),
    };
    drop(st);
    if out.panic.is_some() {
        // never drop a runtime that unwound: dropping its tasks can panic again and abort
        std::mem::forget(rt);
        std::mem::forget(driver);
        std::mem::forget(w);
    } else {
        let r2 = panic::catch_unwind(AssertUnwindSafe(move || {
            drop(rt);
            drop(driver);
            drop(w);
        }));
        if r2.is_err() {
            let mut out = out;
            out.panic = Some(format!(
                "panic while dropping the runtime: {}",
                PANIC_MSG.with(|p| p.borrow_mut().take()).unwrap_or_default()
            ));
            return out;
        }
    }
    out
}

fn self_script_left(plan: &Plan, pos: usize) -> usize {
    plan.peer.script.len().saturating_sub(pos)
}

/// Run one simulation on a fresh thread (pristine thread-locals). A thread whose run panicked is
/// parked forever instead of being allowed to run thread-local destructors over a torn runtime.
pub fn run_one(family: Family, mode: Mode) -> RunOut {
    install_panic_hook();
    let (tx, rx) = mpsc::channel();
    std::thread::Builder::new()
        .name("sim-run".into())
        .stack_size(2 * 1024 * 1024)
        .spawn(move || {
            let out = run_in_thread(family, mode);
            // (codec-level runs unwind cleanly: nothing torn is left behind on the thread)
            let panicked = out.panic.is_some() && !matches!(family, Family::C02 | Family::C10);
            let _ = tx.send(out);
            if panicked {
                loop {
                    std::thread::park();
                }
            }
        })
        .expect("spawn sim thread");
    rx.recv().expect("sim thread died without a result")
}
