//! Deterministic simulation with fault injection for ntex-mqtt (see /verif/DESIGN.md).
pub mod app_v5;
pub mod batch;
pub mod check;
pub mod choice;
pub mod common;
pub mod driver;
pub mod families;
pub mod net;
pub mod oracle;
pub mod peer;
pub mod plan;
pub mod props;
pub mod refcodec;
pub mod report;
pub mod rng;
pub mod runner;
pub mod world;
