use dst::families::Family;
use dst::runner::{Mode, run_one};

struct StderrLog;
impl log::Log for StderrLog {
    fn enabled(&self, _: &log::Metadata<'_>) -> bool {
        true
    }
    fn log(&self, r: &log::Record<'_>) {
        eprintln!("    [{} {}] {}", r.level(), r.target(), r.args());
    }
    fn flush(&self) {}
}

fn main() {
    if std::env::var("DST_LOG").is_ok() {
        let _ = log::set_logger(&StderrLog);
        log::set_max_level(log::LevelFilter::Trace);
    }
    let args: Vec<String> = std::env::args().collect();
    match args.get(1).map(String::as_str) {
        Some("one") => {
            let fam = Family::parse(&args[2]).expect("family");
            let seed: u64 = args[3].parse().expect("seed");
            let out = run_one(fam, Mode::Search(seed));
            if args.get(4).map(String::as_str) == Some("-q") {
                println!("{}", dst::report::sample_trace(&out, 100000));
                for v in dst::oracle::check_all(&out) {
                    println!("VIOLATION {v:?}");
                }
                return;
            }
            println!("plan: role={:?} sched={:?} p_ext={} cut={:?} ending={:?}", out.plan.role, out.plan.sched, out.plan.p_ext, out.plan.cut, out.plan.ending);
            for e in &out.hist {
                println!("{:5} {:6}ms {:?}", e.seq, e.t_ms, e.ev);
            }
            println!("steps={} polls={} sim_ms={} panic={:?} budget_hit={} conn_done={:?} setup_error={:?} runnable_left={} armed_left={}",
                out.stats.steps, out.stats.task_polls, out.stats.sim_ms, out.panic, out.budget_hit, out.conn_done, out.setup_error, out.runnable_left, out.armed_left);
            println!("digest={:016x} sig={:016x} choices={}", out.digest, out.signature, out.choices.len());
            for v in dst::oracle::check_all(&out) {
                println!("VIOLATION {v:?}");
            }
        }
        Some("batch") => {
            let fam = Family::parse(&args[2]).expect("family");
            let seed: u64 = args[3].parse().expect("seed");
            let n: u64 = args[4].parse().expect("runs");
            let o = dst::batch::run_batch(fam, seed, 0, n, 16, 600.0, |_| true);
            println!("runs={} wall={:.2}s distinct={} steps={} polls={} sim_ms={} faults={:?} roles={:?}", o.evaluations, o.wall_s, o.signatures.len(), o.steps, o.task_polls, o.sim_ms, o.faults, o.by_role);
            for (k, f) in &o.found {
                println!("{:6}x {}  first idx={} seed={}  :: {}", f.count, k, f.first_idx, f.first_seed, f.example.as_ref().unwrap().msg);
            }
        }
        _ => eprintln!("usage: dst one <family> <seed> | batch <family> <seed> <runs>"),
    }
}
