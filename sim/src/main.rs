use std::path::Path;

use dst::families::Family;
use dst::runner::{Mode, run_one};

struct StderrLog;
impl log::Log for StderrLog {
    fn enabled(&self, _: &log::Metadata<'_>) -> bool {
        true
    }
    fn log(&self, r: &log::Record<'_>) {
        eprintln!("    [{} {}] {}", r.level(), r.target(), r.args());
    }
    fn flush(&self) {}
}

fn arg_after(args: &[String], flag: &str) -> Option<String> {
    args.iter().position(|a| a == flag).and_then(|i| args.get(i + 1)).cloned()
}

fn base_seed(args: &[String]) -> u64 {
    arg_after(args, "--seed")
        .or_else(|| std::env::var("VERIF_SEED").ok())
        .and_then(|s| s.parse::<u64>().ok())
        .unwrap_or(20_260_924)
}

fn main() {
    if std::env::var("DST_LOG").is_ok() {
        let _ = log::set_logger(&StderrLog);
        log::set_max_level(log::LevelFilter::Trace);
    }
    let args: Vec<String> = std::env::args().collect();
    let threads = std::env::var("DST_THREADS").ok().and_then(|s| s.parse().ok()).unwrap_or(16usize);
    match args.get(1).map(String::as_str) {
        Some("check") => {
            let id = args.get(2).expect("property id");
            let tier = arg_after(&args, "--tier")
                .or_else(|| std::env::var("VERIF_TIER").ok())
                .unwrap_or_else(|| "quick".into());
            let Some(spec) = dst::props::spec(id) else {
                eprintln!("no check registered for {id}");
                std::process::exit(2);
            };
            let r = dst::check::run_check(&spec, &tier, base_seed(&args), threads);
            std::process::exit(r.exit);
        }
        Some("batchjson") => {
            // one chunk of a long batch, run in a child process (see batch::run_batch_auto)
            let spec = dst::props::spec(args.get(2).expect("property id")).expect("registered property");
            let fam = Family::parse(args.get(3).expect("family")).expect("family name");
            let seed: u64 = args.get(4).and_then(|s| s.parse().ok()).expect("seed");
            let start: u64 = args.get(5).and_then(|s| s.parse().ok()).expect("start");
            let n: u64 = args.get(6).and_then(|s| s.parse().ok()).expect("count");
            let o = dst::batch::run_batch(fam, seed, start, n, threads, 3600.0, spec.nontrivial);
            println!("{}", dst::batch::to_json(&o));
        }
        Some("replay") => {
            let path = args.get(2).expect("replay file");
            match dst::check::replay_file(Path::new(path)) {
                Ok((same_key, same_digest, prop, msg)) => {
                    if same_key {
                        println!("VIOLATION property={prop} replay={path}");
                        println!("  reproduced: {msg} (digest {})", if same_digest { "identical" } else { "DIFFERENT" });
                        std::process::exit(1);
                    }
                    println!("not reproduced: {path}");
                    std::process::exit(if same_digest { 0 } else { 3 });
                }
                Err(e) => {
                    eprintln!("replay error: {e}");
                    std::process::exit(2);
                }
            }
        }
        Some("one") => {
            let fam = Family::parse(&args[2]).expect("family");
            let seed: u64 = args[3].parse().expect("seed");
            let out = run_one(fam, Mode::Search(seed));
            println!("{}", dst::report::sample_trace(&out, 100_000));
            if std::env::var("VERIF_SHOW_PLAN").is_ok() {
                println!("cfg={:?}\np_immediate={} p_hold={} w_outcome={:?} w_payload={:?} senders={:?} faults={:?}", out.plan.cfg, out.plan.p_immediate, out.plan.p_hold, out.plan.w_outcome, out.plan.w_payload, out.plan.senders, out.plan.faults);
            }
            println!(
                "steps={} polls={} sim_ms={} panic={:?} budget_hit={} conn_done={:?} setup_error={:?} runnable_left={} armed_left={} digest={:016x} sig={:016x} choices={}",
                out.stats.steps, out.stats.task_polls, out.stats.sim_ms, out.panic, out.budget_hit, out.conn_done, out.setup_error, out.runnable_left, out.armed_left, out.digest, out.signature, out.choices.len()
            );
            for v in dst::oracle::check_all(&out) {
                println!("VIOLATION {v:?}");
            }
        }
        Some("idx") => {
            // the run with this index of a batch (as `batch` / `check` would execute it)
            let fam = Family::parse(&args[2]).expect("family");
            let base: u64 = args[3].parse().expect("base seed");
            let idx: u64 = args[4].parse().expect("index");
            let (mode, _) = dst::batch::mode_of(base, fam, idx);
            let out = run_one(fam, mode);
            println!("{}", dst::report::sample_trace(&out, 100_000));
            println!("choices={:?}", out.choices);
            for v in dst::oracle::check_all(&out) {
                println!("VIOLATION {v:?}");
            }
        }
        Some("batch") => {
            let fam = Family::parse(&args[2]).expect("family");
            let seed: u64 = args[3].parse().expect("seed");
            let n: u64 = args[4].parse().expect("runs");
            let o = dst::batch::run_batch(fam, seed, 0, n, threads, 3600.0, |_| true);
            println!(
                "runs={} wall={:.2}s distinct={} steps={} polls={} sim_ms={} faults={:?} probes={:?} roles={:?}",
                o.evaluations, o.wall_s, o.signatures.len(), o.steps, o.task_polls, o.sim_ms, o.faults, o.probes, o.by_role
            );
            for (k, f) in &o.found {
                println!("{:6}x {}  first idx={} seed={}  :: {}", f.count, k, f.first_idx, f.first_seed, f.example.as_ref().unwrap().msg);
            }
        }
        Some("stress") => {
            // run one seed many times concurrently; all digests must agree
            let fam = Family::parse(&args[2]).expect("family");
            let seed: u64 = args[3].parse().expect("seed");
            let reps: usize = args.get(4).and_then(|s| s.parse().ok()).unwrap_or(2000);
            let mut hs = Vec::new();
            for _ in 0..threads {
                hs.push(std::thread::spawn(move || {
                    let mut v = Vec::new();
                    for _ in 0..reps / 16 {
                        let r = run_one(fam, Mode::Search(seed));
                        v.push((r.digest, r.choices.len(), dst::oracle::check_all(&r).len()));
                    }
                    v
                }));
            }
            let mut all = std::collections::BTreeMap::new();
            for h in hs {
                for d in h.join().unwrap() {
                    *all.entry(d).or_insert(0u32) += 1;
                }
            }
            println!("{all:?}");
        }
        Some("determinism") => {
            // run each seed of each family twice (fresh threads, different batch positions) and compare digests
            let n: u64 = args.get(2).and_then(|s| s.parse().ok()).unwrap_or(2000);
            let seed = base_seed(&args);
            let mut bad = 0u64;
            let mut total = 0u64;
            for fam in dst::families::ALL_FAMILIES {
                // (the long-history families take seconds and hundreds of MB per run: a handful of seeds)
                let n = if matches!(fam, Family::C06L | Family::C20L) { n.min(4) } else { n };
                let d1 = dst::batch::digests(*fam, seed, n, threads, false);
                let d2 = dst::batch::digests(*fam, seed, n, if threads > 1 { 1.max(threads / 4) } else { 1 }, true);
                for i in 0..n as usize {
                    total += 1;
                    if d1[i] != d2[i] {
                        bad += 1;
                        if bad < 10 {
                            println!("NONDETERMINISTIC family={} idx={} {:016x} != {:016x}", fam.name(), i, d1[i], d2[i]);
                        }
                    }
                }
            }
            println!("determinism: {total} seeds run twice, {bad} differ");
            std::process::exit(if bad == 0 { 0 } else { 2 });
        }
        _ => eprintln!("usage: dst check <prop> [--tier quick|thorough] [--seed N] | replay <file> | one <family> <run-seed> | batch <family> <seed> <runs> | determinism [n]"),
    }
}
