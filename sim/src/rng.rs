//! Local PRNG (splitmix64 seeding + xoshiro256**), so no crate version can change a run.

#[derive(Clone, Debug)]
pub struct Rng {
    s: [u64; 4],
}

pub fn splitmix64(state: &mut u64) -> u64 {
    *state = state.wrapping_add(0x9E37_79B9_7F4A_7C15);
    let mut z = *state;
    z = (z ^ (z >> 30)).wrapping_mul(0xBF58_476D_1CE4_E5B9);
    z = (z ^ (z >> 27)).wrapping_mul(0x94D0_49BB_1331_11EB);
    z ^ (z >> 31)
}

impl Rng {
    pub fn new(seed: u64) -> Rng {
        let mut st = seed;
        let s = [splitmix64(&mut st), splitmix64(&mut st), splitmix64(&mut st), splitmix64(&mut st)];
        Rng { s }
    }

    pub fn next_u64(&mut self) -> u64 {
        let result = self.s[1].wrapping_mul(5).rotate_left(7).wrapping_mul(9);
        let t = self.s[1] << 17;
        self.s[2] ^= self.s[0];
        self.s[3] ^= self.s[1];
        self.s[1] ^= self.s[2];
        self.s[0] ^= self.s[3];
        self.s[2] ^= t;
        self.s[3] = self.s[3].rotate_left(45);
        result
    }

    /// Uniform in 0..n (n >= 1).
    pub fn below(&mut self, n: u64) -> u64 {
        debug_assert!(n >= 1);
        // multiply-shift; bias is negligible for the small n used here
        ((u128::from(self.next_u64()) * u128::from(n)) >> 64) as u64
    }
}

/// FNV-1a 64 for history digests / signatures (stable, no std hasher randomness).
#[derive(Clone, Copy, Debug)]
pub struct Fnv(pub u64);

impl Default for Fnv {
    fn default() -> Self {
        Fnv(0xcbf2_9ce4_8422_2325)
    }
}

impl Fnv {
    pub fn write(&mut self, bytes: &[u8]) {
        for b in bytes {
            self.0 ^= u64::from(*b);
            self.0 = self.0.wrapping_mul(0x0000_0100_0000_01b3);
        }
    }
    pub fn write_u64(&mut self, v: u64) {
        self.write(&v.to_le_bytes());
    }
    pub fn write_str(&mut self, s: &str) {
        self.write(s.as_bytes());
        self.write(&[0xff]);
    }
}
