//! Oracles: checks over the recorded history of one run. Each violation carries the property
//! it belongs to and a key built from the failing clause and its discriminating facts, so that a
//! different violation of the same property has a different key.
use std::collections::BTreeMap;

use crate::common::props_sig_ref;
use crate::plan::Ending;
use crate::refcodec::{Pkt, Ver};
use crate::runner::RunOut;
use crate::world::{Ev, GateDesc, GateKind, OpResult, Outcome, PubSeen, StopClass, digest_bytes};

#[derive(Clone, Debug)]
pub struct Violation {
    pub prop: &'static str,
    pub key: String,
    pub msg: String,
    pub at_seq: u64,
}

fn viol(v: &mut Vec<Violation>, prop: &'static str, key: String, msg: String, at_seq: u64) {
    v.push(Violation { prop, key, msg, at_seq });
}

#[derive(Debug, Clone)]
pub struct Sent {
    pub seq: u64,
    pub conn: usize,
    pub pkt: Option<Pkt>,
    pub corrupt: bool,
    pub start: usize,
    pub len: usize,
    /// step at which the last byte of this packet reached the endpoint's socket
    pub delivered: Option<u64>,
}

#[derive(Debug, Clone)]
pub struct EpP {
    pub seq: u64,
    pub conn: usize,
    pub pkt: Pkt,
}

#[derive(Debug, Clone)]
pub struct G {
    pub id: usize,
    pub conn: usize,
    pub kind: GateKind,
    pub desc: GateDesc,
    pub enter: u64,
    pub immediate: bool,
    pub open: Option<(u64, Outcome)>,
    pub exit: Option<(u64, Outcome)>,
    pub dropped: Option<u64>,
    pub payload_end: Option<(usize, u64, Option<String>)>,
    pub pieces: Vec<usize>,
}

#[derive(Debug, Clone)]
pub struct OpRec {
    pub sender: usize,
    pub op: usize,
    pub brief: String,
    pub start: u64,
    pub done: Option<(u64, OpResult)>,
    pub cancelled: bool,
}

pub struct Ix<'a> {
    pub out: &'a RunOut,
    pub ver: Ver,
    pub sent: Vec<Sent>,
    pub eps: Vec<EpP>,
    pub gates: Vec<G>,
    pub stops: Vec<(u64, usize, StopClass)>,
    pub wrbp: Vec<(u64, usize, bool)>,
    pub ops: Vec<OpRec>,
    pub conn_done: Vec<(u64, usize, String)>,
    pub ep_closed: Vec<(u64, usize)>,
    pub garbage: Vec<(u64, usize, String)>,
    pub faults: BTreeMap<&'static str, u64>,
    pub settle_seq: Option<u64>,
    pub fin_seq: Option<u64>,
    pub peer_close: Vec<(u64, usize, bool)>,
    pub last_seq: u64,
}

impl<'a> Ix<'a> {
    pub fn new(out: &'a RunOut) -> Ix<'a> {
        let mut ix = Ix {
            out,
            ver: out.plan.role.ver(),
            sent: Vec::new(),
            eps: Vec::new(),
            gates: Vec::new(),
            stops: Vec::new(),
            wrbp: Vec::new(),
            ops: Vec::new(),
            conn_done: Vec::new(),
            ep_closed: Vec::new(),
            garbage: Vec::new(),
            faults: BTreeMap::new(),
            settle_seq: None,
            fin_seq: None,
            peer_close: Vec::new(),
            last_seq: 0,
        };
        let mut delivered: BTreeMap<usize, usize> = BTreeMap::new();
        for e in &out.hist {
            ix.last_seq = e.seq;
            match &e.ev {
                Ev::PeerSend { conn, pkt, len, corrupt, start } => ix.sent.push(Sent {
                    seq: e.seq,
                    conn: *conn,
                    pkt: pkt.clone(),
                    corrupt: corrupt.is_some(),
                    start: *start,
                    len: *len,
                    delivered: None,
                }),
                Ev::Deliver { conn, n } => {
                    let d = delivered.entry(*conn).or_insert(0);
                    *d += *n;
                    let total = *d;
                    for s in ix.sent.iter_mut().filter(|s| s.conn == *conn && s.delivered.is_none()) {
                        if s.start + s.len <= total {
                            s.delivered = Some(e.seq);
                        }
                    }
                }
                Ev::EpPacket { conn, pkt, .. } => ix.eps.push(EpP { seq: e.seq, conn: *conn, pkt: pkt.clone() }),
                Ev::EpGarbage { conn, what, .. } => ix.garbage.push((e.seq, *conn, what.clone())),
                Ev::EpClosed { conn } => ix.ep_closed.push((e.seq, *conn)),
                Ev::GateEnter { gate, conn, kind, desc, immediate } => {
                    debug_assert_eq!(*gate, ix.gates.len());
                    ix.gates.push(G {
                        id: *gate,
                        conn: *conn,
                        kind: *kind,
                        desc: desc.clone(),
                        enter: e.seq,
                        immediate: *immediate,
                        open: None,
                        exit: None,
                        dropped: None,
                        payload_end: None,
                        pieces: Vec::new(),
                    });
                }
                Ev::GateOpen { gate, outcome } => ix.gates[*gate].open = Some((e.seq, outcome.clone())),
                Ev::GateExit { gate, outcome } => ix.gates[*gate].exit = Some((e.seq, outcome.clone())),
                Ev::GateDropped { gate } => ix.gates[*gate].dropped = Some(e.seq),
                Ev::PayloadPiece { gate, len, .. } => ix.gates[*gate].pieces.push(*len),
                Ev::PayloadEnd { gate, total, digest, err } => {
                    ix.gates[*gate].payload_end = Some((*total, *digest, err.clone()));
                }
                Ev::Control { conn, wr, stop } => {
                    if let Some(s) = stop {
                        ix.stops.push((e.seq, *conn, s.clone()));
                    }
                    if let Some(w) = wr {
                        ix.wrbp.push((e.seq, *conn, *w));
                    }
                }
                Ev::OpStart { sender, op, brief } => ix.ops.push(OpRec {
                    sender: *sender,
                    op: *op,
                    brief: brief.clone(),
                    start: e.seq,
                    done: None,
                    cancelled: false,
                }),
                Ev::OpDone { sender, op, res } => {
                    if let Some(o) = ix.ops.iter_mut().find(|o| o.sender == *sender && o.op == *op) {
                        o.done = Some((e.seq, res.clone()));
                    }
                }
                Ev::OpCancel { sender, op } => {
                    if let Some(o) = ix.ops.iter_mut().find(|o| o.sender == *sender && o.op == *op) {
                        o.cancelled = true;
                    }
                }
                Ev::ConnDone { conn, res } => ix.conn_done.push((e.seq, *conn, res.clone())),
                Ev::Fault { kind, .. } => *ix.faults.entry(kind).or_insert(0) += 1,
                Ev::Phase { name } => {
                    if *name == "settle" {
                        ix.settle_seq = Some(e.seq);
                    } else if *name == "fin" {
                        ix.fin_seq = Some(e.seq);
                    }
                }
                Ev::PeerClose { conn, rst } => ix.peer_close.push((e.seq, *conn, *rst)),
                _ => {}
            }
        }
        ix
    }

    pub fn fault(&self, k: &str) -> u64 {
        self.faults.get(k).copied().unwrap_or(0)
    }

    pub fn role(&self) -> &'static str {
        self.out.plan.role.name()
    }

    /// Did anything end (or possibly end) connection `conn` during the run?
    pub fn conn_ended(&self, conn: usize) -> bool {
        self.stops.iter().any(|s| s.1 == conn)
            || self.conn_done.iter().any(|s| s.1 == conn)
            || self.ep_closed.iter().any(|s| s.1 == conn)
            || self.peer_close.iter().any(|s| s.1 == conn)
    }

    pub fn healthy_settled(&self, conn: usize) -> bool {
        self.out.plan.ending != Ending::Stop
            && self.settle_seq.is_some()
            && !self.out.budget_hit
            && self.out.panic.is_none()
            && (self.fin_seq.is_some() || !self.conn_ended(conn))
            && self.fault("fin") + self.fault("rst") + self.fault("wr_err") == 0
    }

    /// events of the scripted+settle part only (before the final FIN, if any)
    pub fn before_fin(&self, seq: u64) -> bool {
        self.fin_seq.is_none_or(|f| seq < f)
    }

    pub fn pub_gates(&self, conn: usize) -> impl Iterator<Item = (&G, &PubSeen)> {
        self.gates.iter().filter(move |g| g.conn == conn && g.kind == GateKind::Publish).filter_map(|g| match &g.desc {
            GateDesc::Publish(p) => Some((g, p)),
            _ => None,
        })
    }
}

fn is_ack_of_publish(p: &Pkt) -> bool {
    matches!(p, Pkt::PubAck(_) | Pkt::PubRec(_) | Pkt::PubComp(_))
}

// ------------------------------------------------------------------------------------------
// monitors that run on every run of every family

pub fn monitors(ix: &Ix<'_>, v: &mut Vec<Violation>) {
    let out = ix.out;
    let role = ix.role();
    if let Some(p) = &out.panic {
        // attribute by context: corrupted input -> C02, deviating ack -> C06, else C16
        let corrupted = ix.sent.iter().any(|s| s.corrupt && s.pkt.is_none());
        let dev = ix.fault("ack_deviation") > 0;
        let prop = if corrupted {
            "C02"
        } else if dev {
            "C06"
        } else {
            "C16"
        };
        let loc = p.rsplit(" @ ").next().unwrap_or("").to_string();
        viol(v, prop, format!("{prop}/panic/{role}/{loc}"), format!("panic: {p}"), ix.last_seq);
    }
    if let Some(e) = &out.setup_error {
        viol(v, "HARNESS", "harness/setup".into(), e.clone(), 0);
    }
    if out.budget_hit {
        viol(v, "HARNESS", "harness/budget".into(), "step budget exhausted".into(), ix.last_seq);
    }

    // C08: everything written parses as complete well-formed packets
    for (seq, conn, what) in &ix.garbage {
        viol(v, "C08", format!("C08/malformed-output/{role}"), format!("conn {conn}: endpoint wrote a malformed frame: {what}"), *seq);
    }
    for (c, p) in out.peers.iter().enumerate() {
        if p.parse_error.is_none() && p.consumed < p.out_len {
            let aborted = ix.fault("fin") + ix.fault("rst") + ix.fault("wr_err") + ix.fault("cancel_op") > 0
                || ix.ops.iter().any(|o| o.brief.starts_with("ForceClose") || o.brief.starts_with("Stream"))
                || !ix.stops.is_empty();
            if !aborted && out.plan.ending != Ending::Stop && !out.budget_hit && out.panic.is_none() {
                viol(
                    v,
                    "C08",
                    format!("C08/partial-frame-at-end/{role}"),
                    format!("conn {c}: {} trailing bytes do not form a complete packet", p.out_len - p.consumed),
                    ix.last_seq,
                );
            }
        }
    }

    // C15: at most one DISCONNECT from the endpoint, nothing after it (v5)
    if ix.ver == Ver::V5 {
        for c in 0..out.peers.len() {
            let pk: Vec<&EpP> = ix.eps.iter().filter(|e| e.conn == c).collect();
            let discs: Vec<usize> =
                pk.iter().enumerate().filter(|(_, e)| matches!(e.pkt, Pkt::Disconnect(_))).map(|(i, _)| i).collect();
            if discs.len() > 1 {
                viol(v, "C15", format!("C15/two-disconnects/{role}"), format!("conn {c}: {} DISCONNECT packets written", discs.len()), pk[discs[1]].seq);
            }
            if let Some(first) = discs.first()
                && *first + 1 < pk.len()
            {
                let next = pk[*first + 1];
                viol(
                    v,
                    "C15",
                    format!("C15/packet-after-disconnect/{role}/{}", next.pkt.name()),
                    format!("conn {c}: {} written after the endpoint's own DISCONNECT", next.pkt.brief()),
                    next.seq,
                );
            }
            // bytes after DISCONNECT that do not even form a packet
            if let Some(first) = discs.first()
                && *first + 1 == pk.len()
                && out.peers[c].consumed < out.peers[c].out_len
            {
                viol(v, "C15", format!("C15/bytes-after-disconnect/{role}"), format!("conn {c}: stray bytes after DISCONNECT"), pk[*first].seq);
            }
        }
    }

    // C07: the control service never sees a second Stop
    for c in 0..out.peers.len() {
        let n = ix.stops.iter().filter(|s| s.1 == c).count();
        if n > 1 {
            let s = ix.stops.iter().filter(|s| s.1 == c).nth(1).unwrap();
            viol(v, "C07", format!("C07/stop-twice/{role}"), format!("conn {c}: Control::Stop delivered {n} times"), s.0);
        }
    }
}

// ------------------------------------------------------------------------------------------
// C03 (+ content integrity used by C10): inbound PUBLISH handled once, acknowledged per QoS

/// Handler-side checks that hold for every family in which sent topics are unique.
pub fn check_handler_content(ix: &Ix<'_>, v: &mut Vec<Violation>, prop: &'static str) {
    let role = ix.role();
    let conn = 0usize;
    let sent_pubs: Vec<(&Sent, &crate::refcodec::Publish)> = ix
        .sent
        .iter()
        .filter(|s| s.conn == conn && !s.corrupt)
        .filter_map(|s| match &s.pkt {
            Some(Pkt::Publish(p)) => Some((s, p)),
            _ => None,
        })
        .collect();
    let mut seen_topics: BTreeMap<&str, usize> = BTreeMap::new();
    for (g, seen) in ix.pub_gates(conn) {
        let Some((s, p)) = sent_pubs.iter().find(|(_, p)| p.topic == seen.topic) else {
            viol(v, prop, format!("{prop}/foreign-publish/{role}"), format!("handler saw a PUBLISH with topic {:?} that the peer never sent", seen.topic), g.enter);
            continue;
        };
        *seen_topics.entry(seen.topic.as_str()).or_insert(0) += 1;
        if seen_topics[seen.topic.as_str()] > 1 {
            viol(v, prop, format!("{prop}/handled-twice/{role}/q{}", p.qos), format!("PUBLISH {:?} reached the handler {} times", p.topic, seen_topics[seen.topic.as_str()]), g.enter);
        }
        if s.seq > g.enter {
            viol(v, prop, format!("{prop}/handled-before-sent/{role}"), "handler ran before the packet was sent".into(), g.enter);
        }
        let mut diffs = Vec::new();
        if seen.qos != p.qos {
            diffs.push("qos");
        }
        if seen.dup != p.dup {
            diffs.push("dup");
        }
        if seen.retain != p.retain {
            diffs.push("retain");
        }
        if seen.pid != p.pid {
            diffs.push("packet-id");
        }
        if seen.declared_len != p.payload.len() {
            diffs.push("payload-size");
        }
        if ix.ver == Ver::V5 && seen.props_sig != props_sig_ref(&p.props) {
            diffs.push("properties");
        }
        if !diffs.is_empty() {
            viol(v, prop, format!("{prop}/content-mismatch/{role}/{}", diffs.join("+")), format!("PUBLISH {:?}: handler saw different {}", p.topic, diffs.join(", ")), g.enter);
        }
        if let Some((total, digest, err)) = &g.payload_end {
            match err {
                None => {
                    if *total != p.payload.len() || *digest != digest_bytes(&p.payload) {
                        let key = if *total != p.payload.len() { "payload-length" } else { "payload-bytes" };
                        viol(
                            v,
                            prop,
                            format!("{prop}/{key}/{role}"),
                            format!("PUBLISH {:?}: handler read {} bytes (digest {:x}), sent {} bytes (digest {:x})", p.topic, total, digest, p.payload.len(), digest_bytes(&p.payload)),
                            g.enter,
                        );
                    }
                }
                Some(e) => {
                    // a reader may only observe an error if the connection ended
                    if !ix.conn_ended(conn) && ix.out.panic.is_none() {
                        viol(v, prop, format!("{prop}/payload-error-on-live-connection/{role}"), format!("PUBLISH {:?}: payload read failed with {e} but the connection never ended", p.topic), g.enter);
                    }
                }
            }
        }
    }
}

pub fn check_c03(ix: &Ix<'_>, v: &mut Vec<Violation>) {
    let role = ix.role();
    let conn = 0usize;
    let v5 = ix.ver == Ver::V5;
    check_handler_content(ix, v, "C03");

    let sent_pubs: Vec<(&Sent, &crate::refcodec::Publish)> = ix
        .sent
        .iter()
        .filter(|s| s.conn == conn && !s.corrupt)
        .filter_map(|s| match &s.pkt {
            Some(Pkt::Publish(p)) => Some((s, p)),
            _ => None,
        })
        .collect();
    let acks: Vec<&EpP> = ix.eps.iter().filter(|e| e.conn == conn && is_ack_of_publish(&e.pkt)).collect();
    let first_stop = ix.stops.iter().find(|s| s.1 == conn).map(|s| s.0);

    // every ack must be attributable to a sent publish (ids are unique per run in this family)
    for a in &acks {
        let pid = a.pkt.pid().unwrap();
        let Some((_, p)) = sent_pubs.iter().find(|(_, p)| p.pid == Some(pid)) else {
            viol(v, "C03", format!("C03/ack-for-nothing/{role}/{}", a.pkt.name()), format!("{} but no PUBLISH with that id was sent", a.pkt.brief()), a.seq);
            continue;
        };
        let ok_type = match (&a.pkt, p.qos) {
            (Pkt::PubAck(_), 1) | (Pkt::PubRec(_) | Pkt::PubComp(_), 2) => true,
            _ => false,
        };
        if !ok_type {
            viol(v, "C03", format!("C03/wrong-ack-type/{role}/q{}-{}", p.qos, a.pkt.name()), format!("QoS {} PUBLISH #{pid} answered with {}", p.qos, a.pkt.brief()), a.seq);
        }
    }

    for (s, p) in &sent_pubs {
        let gate = ix.pub_gates(conn).find(|(_, seen)| seen.topic == p.topic).map(|(g, _)| g);
        let Some(pid) = p.pid else {
            continue;
        };
        let first = acks.iter().filter(|a| a.pkt.pid() == Some(pid) && matches!(a.pkt, Pkt::PubAck(_) | Pkt::PubRec(_))).collect::<Vec<_>>();
        let comps = acks.iter().filter(|a| a.pkt.pid() == Some(pid) && matches!(a.pkt, Pkt::PubComp(_))).collect::<Vec<_>>();
        if first.len() > 1 {
            viol(v, "C03", format!("C03/duplicate-ack/{role}/q{}", p.qos), format!("PUBLISH #{pid}: {} PUBACK/PUBREC packets", first.len()), first[1].seq);
        }
        if comps.len() > 1 {
            viol(v, "C03", format!("C03/duplicate-pubcomp/{role}"), format!("PUBLISH #{pid}: {} PUBCOMP packets", comps.len()), comps[1].seq);
        }
        // PUBCOMP only in answer to the matching PUBREL
        if let Some(c) = comps.first() {
            let rel = ix.sent.iter().find(|x| matches!(&x.pkt, Some(Pkt::PubRel(a)) if a.pid == pid));
            match rel {
                Some(r) if r.seq < c.seq => {}
                _ => viol(v, "C03", format!("C03/pubcomp-without-pubrel/{role}"), format!("PUBCOMP #{pid} written before the peer sent PUBREL"), c.seq),
            }
        }
        if let Some(a) = first.first() {
            let code = match &a.pkt {
                Pkt::PubAck(x) | Pkt::PubRec(x) => x.code,
                _ => 0,
            };
            // the handler must have completed before the ack was written
            match gate.and_then(|g| g.exit.clone()) {
                Some((xs, outcome)) if xs < a.seq => match outcome {
                    Outcome::Ok => {
                        if code >= 0x80 {
                            viol(v, "C03", format!("C03/negative-ack-for-success/{role}"), format!("handler succeeded but ack code is 0x{code:02x}"), a.seq);
                        }
                    }
                    Outcome::Neg(c) => {
                        if !v5 || code != c {
                            viol(v, "C03", format!("C03/failed-handler-acked/{role}/neg"), format!("handler failed with negative-ack 0x{c:02x}, ack on the wire has code 0x{code:02x}"), a.seq);
                        }
                    }
                    _ => viol(v, "C03", format!("C03/failed-handler-acked/{role}/err"), format!("handler failed, yet {} was written", a.pkt.brief()), a.seq),
                },
                _ => viol(
                    v,
                    "C03",
                    format!("C03/ack-before-handler-done/{role}/q{}", p.qos),
                    format!("{} written before the publish handler completed (gate {:?})", a.pkt.brief(), gate.map(|g| g.id)),
                    a.seq,
                ),
            }
        }
        // liveness on a healthy, settled connection
        if ix.healthy_settled(conn) && first_stop.is_none() && s.delivered.is_some() {
            if gate.is_none() {
                viol(v, "C03", format!("C03/not-handled/{role}/q{}", p.qos), format!("PUBLISH {:?} #{pid} was delivered but never reached the handler", p.topic), ix.last_seq);
            } else if first.is_empty() {
                viol(v, "C03", format!("C03/missing-ack/{role}/q{}", p.qos), format!("PUBLISH #{pid} handled but never acknowledged"), ix.last_seq);
            }
            if p.qos == 2 {
                let rel = ix.sent.iter().find(|x| matches!(&x.pkt, Some(Pkt::PubRel(a)) if a.pid == pid));
                if rel.is_some_and(|r| r.delivered.is_some()) && comps.is_empty() {
                    viol(v, "C03", format!("C03/missing-pubcomp/{role}"), format!("PUBREL #{pid} delivered but no PUBCOMP written"), ix.last_seq);
                }
            }
        }
    }
    // QoS 0 on a healthy settled connection must be handled as well
    if ix.healthy_settled(conn) && first_stop.is_none() {
        for (s, p) in sent_pubs.iter().filter(|(_, p)| p.qos == 0) {
            if s.delivered.is_some() && !ix.pub_gates(conn).any(|(_, seen)| seen.topic == p.topic) {
                viol(v, "C03", format!("C03/not-handled/{role}/q0"), format!("QoS 0 PUBLISH {:?} never reached the handler", p.topic), ix.last_seq);
            }
        }
    }
    // a handler failure that cannot be mapped ends the connection with the application's error
    for (g, seen) in ix.pub_gates(conn) {
        if let Some((xs, outcome)) = &g.exit {
            let unmappable = match outcome {
                Outcome::Err => true,
                Outcome::Neg(_) => !v5 || seen.qos == 0,
                _ => false,
            };
            if unmappable && ix.out.plan.ending != Ending::Stop && !ix.out.budget_hit && ix.out.panic.is_none() {
                let stop = ix.stops.iter().find(|s| s.1 == conn);
                match stop {
                    None => viol(v, "C03", format!("C03/failed-handler-no-stop/{role}"), format!("handler of {:?} failed at step {xs} but the connection was never stopped", seen.topic), ix.last_seq),
                    Some((_, _, StopClass::AppError)) => {}
                    Some((ss, _, other)) => {
                        // another cause may legitimately have come first
                        if ss > xs && ix.fault("fin") + ix.fault("rst") + ix.fault("wr_err") == 0 && ix.gates.iter().filter(|g| matches!(g.exit, Some((_, Outcome::Err | Outcome::Neg(_) | Outcome::Disconnect(_))))).count() == 1 {
                            viol(v, "C03", format!("C03/failed-handler-wrong-stop/{role}"), format!("handler failed; Stop reason is {other:?}, expected the application's error"), *ss);
                        }
                    }
                }
            }
        }
    }
}

// ------------------------------------------------------------------------------------------
// C04: responses leave in request order

pub fn check_c04(ix: &Ix<'_>, v: &mut Vec<Violation>) {
    let role = ix.role();
    let conn = 0usize;
    // requests in arrival order
    #[derive(Debug)]
    struct Req {
        idx: usize,
        kind: &'static str,
        pid: Option<u16>,
        answered: u32,
        delivered: bool,
    }
    let mut reqs: Vec<Req> = Vec::new();
    for s in ix.sent.iter().filter(|s| s.conn == conn && !s.corrupt) {
        let (kind, pid) = match &s.pkt {
            Some(Pkt::Publish(p)) if p.qos == 1 => ("PUBACK", p.pid),
            Some(Pkt::Publish(p)) if p.qos == 2 => ("PUBREC", p.pid),
            Some(Pkt::PubRel(a)) => ("PUBCOMP", Some(a.pid)),
            Some(Pkt::Subscribe(x)) => ("SUBACK", Some(x.pid)),
            Some(Pkt::Unsubscribe(x)) => ("UNSUBACK", Some(x.pid)),
            Some(Pkt::PingReq) => ("PINGRESP", None),
            Some(Pkt::Auth(_)) => ("AUTH", None),
            _ => continue,
        };
        reqs.push(Req { idx: reqs.len(), kind, pid, answered: 0, delivered: s.delivered.is_some() });
    }
    // Responses without an identifier (PINGRESP, AUTH) can only be matched by position. The protocol
    // service sees control packets one at a time in arrival order, so the j-th PINGREQ corresponds to
    // the j-th PINGREQ handler invocation; a request whose handler failed owes no response.
    for (kind, brief) in [("PINGRESP", "PINGREQ"), ("AUTH", "AUTH")] {
        let outcomes: Vec<Option<Outcome>> = ix
            .gates
            .iter()
            .filter(|g| g.conn == conn && g.kind == GateKind::Proto)
            .filter(|g| matches!(&g.desc, GateDesc::Proto { brief: b, .. } if b.starts_with(brief)))
            .map(|g| g.exit.as_ref().map(|(_, o)| o.clone()))
            .collect();
        let mut j = 0usize;
        for r in reqs.iter_mut().filter(|r| r.kind == kind) {
            if let Some(Some(o)) = outcomes.get(j)
                && *o != Outcome::Ok
            {
                // mark as not owing a response
                r.answered = u32::MAX;
            }
            j += 1;
        }
    }
    let mut last_idx: Option<usize> = None;
    for e in ix.eps.iter().filter(|e| e.conn == conn) {
        let name = e.pkt.name();
        if !matches!(name, "PUBACK" | "PUBREC" | "PUBCOMP" | "SUBACK" | "UNSUBACK" | "PINGRESP" | "AUTH") {
            continue;
        }
        let pid = e.pkt.pid();
        let Some(r) = reqs.iter_mut().find(|r| r.kind == name && r.pid == pid && r.answered == 0) else {
            // a second response for an already answered request, or a response to nothing
            if reqs.iter().any(|r| r.kind == name && r.pid == pid) {
                viol(v, "C04", format!("C04/duplicate-response/{role}/{name}"), format!("{} written twice", e.pkt.brief()), e.seq);
            } else {
                viol(v, "C04", format!("C04/response-to-nothing/{role}/{name}"), format!("{} answers no request", e.pkt.brief()), e.seq);
            }
            continue;
        };
        r.answered += 1;
        if let Some(l) = last_idx
            && r.idx < l
        {
            viol(
                v,
                "C04",
                format!("C04/out-of-order/{role}/{name}"),
                format!("{} (request #{}) written after the response to request #{l}", e.pkt.brief(), r.idx),
                e.seq,
            );
        }
        last_idx = Some(last_idx.map_or(r.idx, |l| l.max(r.idx)));
    }
    if ix.healthy_settled(conn) && ix.stops.is_empty() {
        for r in reqs.iter().filter(|r| r.delivered && r.answered == 0) {
            viol(v, "C04", format!("C04/lost-response/{role}/{}", r.kind), format!("request #{} ({} #{:?}) never answered on a healthy connection", r.idx, r.kind, r.pid), ix.last_seq);
        }
    }
}

pub fn probe_c04(ix: &Ix<'_>) -> bool {
    // non-trivial: at least two handler invocations overlapped and completed out of arrival order
    let gs: Vec<&G> = ix.gates.iter().filter(|g| matches!(g.kind, GateKind::Publish | GateKind::Proto)).collect();
    for (i, a) in gs.iter().enumerate() {
        for b in gs.iter().skip(i + 1) {
            if let (Some((ax, _)), Some((bx, _))) = (&a.exit, &b.exit)
                && b.enter < *ax
                && bx < ax
            {
                return true;
            }
        }
    }
    false
}

pub fn check_all(out: &RunOut) -> Vec<Violation> {
    let ix = Ix::new(out);
    let mut v = Vec::new();
    monitors(&ix, &mut v);
    match out.plan.family {
        "C03" => {
            check_c03(&ix, &mut v);
            check_c04(&ix, &mut v);
        }
        "C04" => {
            check_c04(&ix, &mut v);
            check_c03(&ix, &mut v);
        }
        _ => {}
    }
    v
}
