//! Oracles: checks over the recorded history of one run. Each violation carries the property
//! it belongs to and a key built from the failing clause and its discriminating facts, so that a
//! different violation of the same property has a different key.
use std::collections::BTreeMap;

use crate::common::props_sig_ref;
use crate::plan::Ending;
use crate::refcodec::{Pkt, Ver};
use crate::runner::RunOut;
use crate::world::{Ev, GateDesc, GateKind, OpResult, Outcome, PubSeen, StopClass, digest_bytes};

#[derive(Clone, Debug)]
pub struct Violation {
    pub prop: &'static str,
    pub key: String,
    pub msg: String,
    pub at_seq: u64,
}

fn viol(v: &mut Vec<Violation>, prop: &'static str, key: String, msg: String, at_seq: u64) {
    v.push(Violation { prop, key, msg, at_seq });
}

#[derive(Debug, Clone)]
pub struct Sent {
    pub seq: u64,
    pub conn: usize,
    pub pkt: Option<Pkt>,
    pub corrupt: bool,
    pub start: usize,
    pub len: usize,
    /// step at which the last byte of this packet reached the endpoint's socket
    pub delivered: Option<u64>,
}

#[derive(Debug, Clone)]
pub struct EpP {
    pub seq: u64,
    pub conn: usize,
    pub pkt: Pkt,
}

#[derive(Debug, Clone)]
pub struct G {
    pub id: usize,
    pub conn: usize,
    pub kind: GateKind,
    pub desc: GateDesc,
    pub enter: u64,
    pub immediate: bool,
    pub open: Option<(u64, Outcome)>,
    pub exit: Option<(u64, Outcome)>,
    pub dropped: Option<u64>,
    pub payload_end: Option<(usize, u64, Option<String>)>,
    pub pieces: Vec<usize>,
    /// the handler is awaiting payload data since this step (cleared by the next piece / end)
    pub payload_wait: Option<u64>,
}

#[derive(Debug, Clone)]
pub struct OpRec {
    pub sender: usize,
    pub op: usize,
    pub brief: String,
    pub start: u64,
    pub done: Option<(u64, OpResult)>,
    pub cancelled: bool,
}

pub struct Ix<'a> {
    pub out: &'a RunOut,
    pub ver: Ver,
    pub sent: Vec<Sent>,
    pub eps: Vec<EpP>,
    pub gates: Vec<G>,
    pub stops: Vec<(u64, usize, StopClass)>,
    pub wrbp: Vec<(u64, usize, bool)>,
    pub ops: Vec<OpRec>,
    pub conn_done: Vec<(u64, usize, String)>,
    pub ep_closed: Vec<(u64, usize)>,
    pub garbage: Vec<(u64, usize, String)>,
    pub faults: BTreeMap<&'static str, u64>,
    pub settle_seq: Option<u64>,
    pub fin_seq: Option<u64>,
    pub peer_close: Vec<(u64, usize, bool)>,
    pub sessions: Vec<(u64, usize)>,
    pub last_seq: u64,
}

impl<'a> Ix<'a> {
    pub fn new(out: &'a RunOut) -> Ix<'a> {
        let mut ix = Ix {
            out,
            ver: out.plan.role.ver(),
            sent: Vec::new(),
            eps: Vec::new(),
            gates: Vec::new(),
            stops: Vec::new(),
            wrbp: Vec::new(),
            ops: Vec::new(),
            conn_done: Vec::new(),
            ep_closed: Vec::new(),
            garbage: Vec::new(),
            faults: BTreeMap::new(),
            settle_seq: None,
            fin_seq: None,
            peer_close: Vec::new(),
            sessions: Vec::new(),
            last_seq: 0,
        };
        let mut delivered: BTreeMap<usize, usize> = BTreeMap::new();
        for e in &out.hist {
            ix.last_seq = e.seq;
            match &e.ev {
                Ev::PeerSend { conn, pkt, len, corrupt, start } => ix.sent.push(Sent {
                    seq: e.seq,
                    conn: *conn,
                    pkt: pkt.clone(),
                    corrupt: corrupt.is_some(),
                    start: *start,
                    len: *len,
                    delivered: None,
                }),
                Ev::Deliver { conn, n } => {
                    let d = delivered.entry(*conn).or_insert(0);
                    *d += *n;
                    let total = *d;
                    for s in ix.sent.iter_mut().filter(|s| s.conn == *conn && s.delivered.is_none()) {
                        if s.start + s.len <= total {
                            s.delivered = Some(e.seq);
                        }
                    }
                }
                Ev::EpPacket { conn, pkt, .. } => ix.eps.push(EpP { seq: e.seq, conn: *conn, pkt: pkt.clone() }),
                Ev::EpGarbage { conn, what, .. } => ix.garbage.push((e.seq, *conn, what.clone())),
                Ev::EpClosed { conn } => ix.ep_closed.push((e.seq, *conn)),
                Ev::GateEnter { gate, conn, kind, desc, immediate } => {
                    debug_assert_eq!(*gate, ix.gates.len());
                    ix.gates.push(G {
                        id: *gate,
                        conn: *conn,
                        kind: *kind,
                        desc: desc.clone(),
                        enter: e.seq,
                        immediate: *immediate,
                        open: None,
                        exit: None,
                        dropped: None,
                        payload_end: None,
                        pieces: Vec::new(),
                        payload_wait: None,
                    });
                }
                Ev::GateOpen { gate, outcome } => ix.gates[*gate].open = Some((e.seq, outcome.clone())),
                Ev::GateExit { gate, outcome } => ix.gates[*gate].exit = Some((e.seq, outcome.clone())),
                Ev::GateDropped { gate } => ix.gates[*gate].dropped = Some(e.seq),
                Ev::PayloadWait { gate } => ix.gates[*gate].payload_wait = Some(e.seq),
                Ev::PayloadPiece { gate, len, .. } => {
                    ix.gates[*gate].pieces.push(*len);
                    ix.gates[*gate].payload_wait = None;
                }
                Ev::PayloadEnd { gate, total, digest, err } => {
                    ix.gates[*gate].payload_end = Some((*total, *digest, err.clone()));
                    ix.gates[*gate].payload_wait = None;
                }
                Ev::Session { conn } => ix.sessions.push((e.seq, *conn)),
                Ev::Control { conn, wr, stop } => {
                    if let Some(s) = stop {
                        ix.stops.push((e.seq, *conn, s.clone()));
                    }
                    if let Some(w) = wr {
                        ix.wrbp.push((e.seq, *conn, *w));
                    }
                }
                Ev::OpStart { sender, op, brief } => ix.ops.push(OpRec {
                    sender: *sender,
                    op: *op,
                    brief: brief.clone(),
                    start: e.seq,
                    done: None,
                    cancelled: false,
                }),
                Ev::OpDone { sender, op, res } => {
                    // (the operation that completes is a recent one: search from the back - long histories)
                    if let Some(o) = ix.ops.iter_mut().rev().find(|o| o.sender == *sender && o.op == *op) {
                        o.done = Some((e.seq, res.clone()));
                    }
                }
                Ev::OpCancel { sender, op } => {
                    if let Some(o) = ix.ops.iter_mut().rev().find(|o| o.sender == *sender && o.op == *op) {
                        o.cancelled = true;
                    }
                }
                Ev::ConnDone { conn, res } => ix.conn_done.push((e.seq, *conn, res.clone())),
                Ev::Fault { kind, .. } => *ix.faults.entry(kind).or_insert(0) += 1,
                Ev::Phase { name } => {
                    if *name == "settle" {
                        ix.settle_seq = Some(e.seq);
                    } else if *name == "fin" {
                        ix.fin_seq = Some(e.seq);
                    }
                }
                Ev::PeerClose { conn, rst } => ix.peer_close.push((e.seq, *conn, *rst)),
                _ => {}
            }
        }
        ix
    }

    pub fn fault(&self, k: &str) -> u64 {
        self.faults.get(k).copied().unwrap_or(0)
    }

    pub fn role(&self) -> &'static str {
        self.out.plan.role.name()
    }

    /// Did anything end (or possibly end) connection `conn` during the run?
    pub fn conn_ended(&self, conn: usize) -> bool {
        self.stops.iter().any(|s| s.1 == conn)
            || self.conn_done.iter().any(|s| s.1 == conn)
            || self.ep_closed.iter().any(|s| s.1 == conn)
            || self.peer_close.iter().any(|s| s.1 == conn)
    }

    pub fn healthy_settled(&self, conn: usize) -> bool {
        self.out.plan.ending != Ending::Stop
            && self.settle_seq.is_some()
            && !self.out.budget_hit
            && self.out.panic.is_none()
            && (self.fin_seq.is_some() || !self.conn_ended(conn))
            && self.fault("fin") + self.fault("rst") + self.fault("wr_err") == 0
    }

    /// The cooperative closing phase was reached and nothing was injected that may end a connection
    /// (whether the connection is still alive is for the caller to judge).
    pub fn settled_without_faults(&self) -> bool {
        self.out.plan.ending != Ending::Stop
            && self.settle_seq.is_some()
            && !self.out.budget_hit
            && self.out.panic.is_none()
            && self.fault("fin") + self.fault("rst") + self.fault("wr_err") == 0
    }

    /// events of the scripted+settle part only (before the final FIN, if any)
    pub fn before_fin(&self, seq: u64) -> bool {
        self.fin_seq.is_none_or(|f| seq < f)
    }

    pub fn pub_gates(&self, conn: usize) -> impl Iterator<Item = (&G, &PubSeen)> {
        self.gates.iter().filter(move |g| g.conn == conn && g.kind == GateKind::Publish).filter_map(|g| match &g.desc {
            GateDesc::Publish(p) => Some((g, p)),
            _ => None,
        })
    }
}

fn is_ack_of_publish(p: &Pkt) -> bool {
    matches!(p, Pkt::PubAck(_) | Pkt::PubRec(_) | Pkt::PubComp(_))
}

// ------------------------------------------------------------------------------------------
// monitors that run on every run of every family

pub fn monitors(ix: &Ix<'_>, v: &mut Vec<Violation>) {
    let out = ix.out;
    let role = ix.role();
    if let Some(p) = &out.panic {
        // attribute by context: corrupted input -> C02, deviating ack -> C06, else C16
        let corrupted = ix.sent.iter().any(|s| s.corrupt && s.pkt.is_none());
        let dev = ix.fault("ack_deviation") > 0;
        let prop = if corrupted {
            "C02"
        } else if dev {
            "C06"
        } else {
            "C16"
        };
        let loc = p.rsplit(" @ ").next().unwrap_or("").to_string();
        viol(v, prop, format!("{prop}/panic/{role}/{loc}"), format!("panic: {p}"), ix.last_seq);
    }
    if let Some(e) = &out.setup_error {
        viol(v, "HARNESS", "harness/setup".into(), e.clone(), 0);
    }
    if out.budget_hit {
        viol(v, "HARNESS", "harness/budget".into(), "step budget exhausted".into(), ix.last_seq);
    }

    // C08: everything written parses as complete well-formed packets
    for (seq, conn, what) in &ix.garbage {
        viol(v, "C08", format!("C08/malformed-output/{role}"), format!("conn {conn}: endpoint wrote a malformed frame: {what}"), *seq);
    }
    for (c, p) in out.peers.iter().enumerate() {
        if p.parse_error.is_none() && p.consumed < p.out_len {
            // a trailing partial frame is only acceptable on a connection that was aborted
            let aborted = ix.fault("fin") + ix.fault("rst") + ix.fault("wr_err") > 0
                || ix.ops.iter().any(|o| o.brief.starts_with("ForceClose"))
                || p.ep_closed
                || !ix.stops.is_empty();
            if !aborted && out.plan.ending != Ending::Stop && !out.budget_hit && out.panic.is_none() {
                viol(
                    v,
                    "C08",
                    format!("C08/partial-frame-at-end/{role}"),
                    format!("conn {c}: {} trailing bytes do not form a complete packet", p.out_len - p.consumed),
                    ix.last_seq,
                );
            }
        }
    }

    // C15: at most one DISCONNECT from the endpoint, nothing after it (v5)
    if ix.ver == Ver::V5 {
        for c in 0..out.peers.len() {
            let pk: Vec<&EpP> = ix.eps.iter().filter(|e| e.conn == c).collect();
            let discs: Vec<usize> =
                pk.iter().enumerate().filter(|(_, e)| matches!(e.pkt, Pkt::Disconnect(_))).map(|(i, _)| i).collect();
            if discs.len() > 1 {
                viol(v, "C15", format!("C15/two-disconnects/{role}"), format!("conn {c}: {} DISCONNECT packets written", discs.len()), pk[discs[1]].seq);
            }
            if let Some(first) = discs.first()
                && *first + 1 < pk.len()
            {
                let next = pk[*first + 1];
                viol(
                    v,
                    "C15",
                    format!("C15/packet-after-disconnect/{role}/{}", next.pkt.name()),
                    format!("conn {c}: {} written after the endpoint's own DISCONNECT", next.pkt.brief()),
                    next.seq,
                );
            }
            // bytes after DISCONNECT that do not even form a packet
            if let Some(first) = discs.first()
                && *first + 1 == pk.len()
                && out.peers[c].consumed < out.peers[c].out_len
            {
                viol(v, "C15", format!("C15/bytes-after-disconnect/{role}"), format!("conn {c}: stray bytes after DISCONNECT"), pk[*first].seq);
            }
        }
    }

    // C07: the control service never sees a second Stop
    for c in 0..out.peers.len() {
        let n = ix.stops.iter().filter(|s| s.1 == c).count();
        if n > 1 {
            let s = ix.stops.iter().filter(|s| s.1 == c).nth(1).unwrap();
            viol(v, "C07", format!("C07/stop-twice/{role}"), format!("conn {c}: Control::Stop delivered {n} times"), s.0);
        }
    }
}

// ------------------------------------------------------------------------------------------
// C03 (+ content integrity used by C10): inbound PUBLISH handled once, acknowledged per QoS

/// Handler-side checks that hold for every family in which sent topics are unique.
pub fn check_handler_content(ix: &Ix<'_>, v: &mut Vec<Violation>, prop: &'static str) {
    let role = ix.role();
    let conn = 0usize;
    let sent_pubs: Vec<(&Sent, &crate::refcodec::Publish)> = ix
        .sent
        .iter()
        .filter(|s| s.conn == conn && !s.corrupt)
        .filter_map(|s| match &s.pkt {
            Some(Pkt::Publish(p)) => Some((s, p)),
            _ => None,
        })
        .collect();
    let mut seen_topics: BTreeMap<&str, usize> = BTreeMap::new();
    for (g, seen) in ix.pub_gates(conn) {
        let Some((s, p)) = sent_pubs.iter().find(|(_, p)| p.topic == seen.topic) else {
            viol(v, prop, format!("{prop}/foreign-publish/{role}"), format!("handler saw a PUBLISH with topic {:?} that the peer never sent", seen.topic), g.enter);
            continue;
        };
        *seen_topics.entry(seen.topic.as_str()).or_insert(0) += 1;
        if seen_topics[seen.topic.as_str()] > 1 {
            viol(v, prop, format!("{prop}/handled-twice/{role}/q{}", p.qos), format!("PUBLISH {:?} reached the handler {} times", p.topic, seen_topics[seen.topic.as_str()]), g.enter);
        }
        if s.seq > g.enter {
            viol(v, prop, format!("{prop}/handled-before-sent/{role}"), "handler ran before the packet was sent".into(), g.enter);
        }
        let mut diffs = Vec::new();
        if seen.qos != p.qos {
            diffs.push("qos");
        }
        if seen.dup != p.dup {
            diffs.push("dup");
        }
        if seen.retain != p.retain {
            diffs.push("retain");
        }
        if seen.pid != p.pid {
            diffs.push("packet-id");
        }
        if seen.declared_len != p.payload.len() {
            diffs.push("payload-size");
        }
        if ix.ver == Ver::V5 && seen.props_sig != props_sig_ref(&p.props) {
            diffs.push("properties");
        }
        if !diffs.is_empty() {
            viol(v, prop, format!("{prop}/content-mismatch/{role}/{}", diffs.join("+")), format!("PUBLISH {:?}: handler saw different {}", p.topic, diffs.join(", ")), g.enter);
        }
        if let Some((total, digest, err)) = &g.payload_end {
            match err {
                None => {
                    if *total != p.payload.len() || *digest != digest_bytes(&p.payload) {
                        let key = if *total != p.payload.len() { "payload-length" } else { "payload-bytes" };
                        viol(
                            v,
                            prop,
                            format!("{prop}/{key}/{role}"),
                            format!("PUBLISH {:?}: handler read {} bytes (digest {:x}), sent {} bytes (digest {:x})", p.topic, total, digest, p.payload.len(), digest_bytes(&p.payload)),
                            g.enter,
                        );
                    }
                }
                Some(e) => {
                    // a reader may only observe an error if the connection ended
                    if !ix.conn_ended(conn) && ix.out.panic.is_none() {
                        viol(v, prop, format!("{prop}/payload-error-on-live-connection/{role}"), format!("PUBLISH {:?}: payload read failed with {e} but the connection never ended", p.topic), g.enter);
                    }
                }
            }
        }
    }
}

pub fn check_c03(ix: &Ix<'_>, v: &mut Vec<Violation>) {
    let role = ix.role();
    let conn = 0usize;
    let v5 = ix.ver == Ver::V5;
    check_handler_content(ix, v, "C03");

    let sent_pubs: Vec<(&Sent, &crate::refcodec::Publish)> = ix
        .sent
        .iter()
        .filter(|s| s.conn == conn && !s.corrupt)
        .filter_map(|s| match &s.pkt {
            Some(Pkt::Publish(p)) => Some((s, p)),
            _ => None,
        })
        .collect();
    let acks: Vec<&EpP> = ix.eps.iter().filter(|e| e.conn == conn && is_ack_of_publish(&e.pkt)).collect();
    let first_stop = ix.stops.iter().find(|s| s.1 == conn).map(|s| s.0);

    // every ack must be attributable to a sent publish (ids are unique per run in this family)
    for a in &acks {
        let pid = a.pkt.pid().unwrap();
        let Some((_, p)) = sent_pubs.iter().find(|(_, p)| p.pid == Some(pid)) else {
            viol(v, "C03", format!("C03/ack-for-nothing/{role}/{}", a.pkt.name()), format!("{} but no PUBLISH with that id was sent", a.pkt.brief()), a.seq);
            continue;
        };
        let ok_type = match (&a.pkt, p.qos) {
            (Pkt::PubAck(_), 1) | (Pkt::PubRec(_) | Pkt::PubComp(_), 2) => true,
            _ => false,
        };
        if !ok_type {
            viol(v, "C03", format!("C03/wrong-ack-type/{role}/q{}-{}", p.qos, a.pkt.name()), format!("QoS {} PUBLISH #{pid} answered with {}", p.qos, a.pkt.brief()), a.seq);
        }
    }

    // with the topic router every publish is handled by the resource its (resolved) topic names
    if ix.out.plan.tags.iter().any(|t| t == "motif:alias-rebind-across-routes") {
        for (g, seen) in ix.pub_gates(conn) {
            let want = c17_route(&seen.topic, ix.out.plan.cfg.use_router, !ix.out.plan.role.is_server());
            if !seen.topic.is_empty() && seen.route != want {
                viol(v, "C03", format!("C03/handled-by-wrong-resource/{role}"), format!("PUBLISH {:?} was handled by {} instead of {want}", seen.topic, seen.route), g.enter);
                break;
            }
        }
    }
    // the Maximum QoS in force (server roles): configured, or lowered by the handshake's CONNACK (MQTT 5)
    let cfg = &ix.out.plan.cfg;
    let max_qos = if ix.out.plan.role.is_server() { if v5 { cfg.hs_max_qos.unwrap_or(cfg.max_qos) } else { cfg.max_qos } } else { 2 };
    for (_, p) in sent_pubs.iter().filter(|(_, p)| p.qos > max_qos) {
        if ix.pub_gates(conn).any(|(_, seen)| seen.topic == p.topic) {
            viol(v, "C03", format!("C03/unacceptable-publish-handled/{role}/q{}", p.qos), format!("Maximum QoS in force is {max_qos}, yet the QoS {} PUBLISH {:?} reached the handler", p.qos, p.topic), ix.last_seq);
        }
        if let Some(a) = acks.iter().find(|a| a.pkt.pid() == p.pid && matches!(a.pkt, Pkt::PubAck(_) | Pkt::PubRec(_))) {
            viol(v, "C03", format!("C03/unacceptable-publish-acked/{role}/q{}", p.qos), format!("Maximum QoS in force is {max_qos}, yet the QoS {} PUBLISH {:?} was answered with {}", p.qos, p.topic, a.pkt.brief()), a.seq);
        }
    }
    for (s, p) in &sent_pubs {
        if p.qos > max_qos {
            continue;
        }
        let gate = ix.pub_gates(conn).find(|(_, seen)| seen.topic == p.topic).map(|(g, _)| g);
        let Some(pid) = p.pid else {
            continue;
        };
        let first = acks.iter().filter(|a| a.pkt.pid() == Some(pid) && matches!(a.pkt, Pkt::PubAck(_) | Pkt::PubRec(_))).collect::<Vec<_>>();
        // (a PUBCOMP carrying Packet-Identifier-not-found, 0x92, refuses a PUBREL: only success ones count)
        let comps = acks.iter().filter(|a| a.pkt.pid() == Some(pid) && matches!(&a.pkt, Pkt::PubComp(x) if x.code < 0x80)).collect::<Vec<_>>();
        if first.len() > 1 {
            viol(v, "C03", format!("C03/duplicate-ack/{role}/q{}", p.qos), format!("PUBLISH #{pid}: {} PUBACK/PUBREC packets", first.len()), first[1].seq);
        }
        if comps.len() > 1 {
            viol(v, "C03", format!("C03/duplicate-pubcomp/{role}"), format!("PUBLISH #{pid}: {} PUBCOMP packets", comps.len()), comps[1].seq);
        }
        // PUBCOMP only in answer to the matching PUBREL
        if let Some(c) = comps.first() {
            let rel = ix.sent.iter().find(|x| matches!(&x.pkt, Some(Pkt::PubRel(a)) if a.pid == pid));
            match rel {
                Some(r) if r.seq < c.seq => {}
                _ => viol(v, "C03", format!("C03/pubcomp-without-pubrel/{role}"), format!("PUBCOMP #{pid} written before the peer sent PUBREL"), c.seq),
            }
        }
        if let Some(a) = first.first() {
            let code = match &a.pkt {
                Pkt::PubAck(x) | Pkt::PubRec(x) => x.code,
                _ => 0,
            };
            // the handler must have completed before the ack was written
            match gate.and_then(|g| g.exit.clone()) {
                Some((xs, outcome)) if xs < a.seq => match outcome {
                    Outcome::Ok => {
                        if code >= 0x80 {
                            viol(v, "C03", format!("C03/negative-ack-for-success/{role}"), format!("handler succeeded but ack code is 0x{code:02x}"), a.seq);
                        }
                    }
                    Outcome::Neg(c) => {
                        if !v5 || code != c {
                            viol(v, "C03", format!("C03/failed-handler-acked/{role}/neg"), format!("handler failed with negative-ack 0x{c:02x}, ack on the wire has code 0x{code:02x}"), a.seq);
                        }
                    }
                    _ => viol(v, "C03", format!("C03/failed-handler-acked/{role}/err"), format!("handler failed, yet {} was written", a.pkt.brief()), a.seq),
                },
                _ => viol(
                    v,
                    "C03",
                    format!("C03/ack-before-handler-done/{role}/q{}", p.qos),
                    format!("{} written before the publish handler completed (gate {:?})", a.pkt.brief(), gate.map(|g| g.id)),
                    a.seq,
                ),
            }
        }
        // liveness on a healthy, settled connection
        if ix.healthy_settled(conn) && first_stop.is_none() && s.delivered.is_some() {
            if gate.is_none() {
                viol(v, "C03", format!("C03/not-handled/{role}/q{}", p.qos), format!("PUBLISH {:?} #{pid} was delivered but never reached the handler", p.topic), ix.last_seq);
            } else if first.is_empty() {
                viol(v, "C03", format!("C03/missing-ack/{role}/q{}", p.qos), format!("PUBLISH #{pid} handled but never acknowledged"), ix.last_seq);
            }
            if p.qos == 2 {
                let rel = ix.sent.iter().find(|x| matches!(&x.pkt, Some(Pkt::PubRel(a)) if a.pid == pid));
                if rel.is_some_and(|r| r.delivered.is_some()) && comps.is_empty() {
                    viol(v, "C03", format!("C03/missing-pubcomp/{role}"), format!("PUBREL #{pid} delivered but no PUBCOMP written"), ix.last_seq);
                }
            }
        }
    }
    // QoS 0 on a healthy settled connection must be handled as well
    if ix.healthy_settled(conn) && first_stop.is_none() {
        for (s, p) in sent_pubs.iter().filter(|(_, p)| p.qos == 0) {
            if s.delivered.is_some() && !ix.pub_gates(conn).any(|(_, seen)| seen.topic == p.topic) {
                viol(v, "C03", format!("C03/not-handled/{role}/q0"), format!("QoS 0 PUBLISH {:?} never reached the handler", p.topic), ix.last_seq);
            }
        }
    }
    // a handler failure that cannot be mapped ends the connection with the application's error
    for (g, seen) in ix.pub_gates(conn) {
        if let Some((xs, outcome)) = &g.exit {
            let unmappable = match outcome {
                Outcome::Err => true,
                // MQTT 5, QoS 0: the error is mapped but there is no acknowledgement to carry the code; the
                // statement only demands that nothing is acknowledged (the server dispatchers and the plain
                // client end the connection, the client router path carries on: both satisfy it)
                Outcome::Neg(_) => !v5 || (seen.qos == 0 && !(ix.out.plan.cfg.use_router && !ix.out.plan.role.is_server())),
                _ => false,
            };
            if unmappable && ix.out.plan.ending != Ending::Stop && !ix.out.budget_hit && ix.out.panic.is_none() {
                let stop = ix.stops.iter().find(|s| s.1 == conn);
                let ended = ix.conn_done.iter().any(|c| c.1 == conn);
                match stop {
                    None if ended => {}
                    None => viol(v, "C03", format!("C03/failed-handler-no-stop/{role}"), format!("handler of {:?} failed at step {xs} but the connection was never stopped", seen.topic), ix.last_seq),
                    Some((_, _, StopClass::AppError)) => {}
                    Some(_) => {} // which reason class is reported is C07's clause, not C03's
                }
            }
        }
    }
}

// ------------------------------------------------------------------------------------------
// C04: responses leave in request order

pub fn check_c04(ix: &Ix<'_>, v: &mut Vec<Violation>) {
    let role = ix.role();
    let conn = 0usize;
    // requests in arrival order
    #[derive(Debug)]
    struct Req {
        idx: usize,
        kind: &'static str,
        pid: Option<u16>,
        answered: u32,
        delivered: bool,
    }
    let mut reqs: Vec<Req> = Vec::new();
    for s in ix.sent.iter().filter(|s| s.conn == conn && !s.corrupt) {
        let (kind, pid) = match &s.pkt {
            Some(Pkt::Publish(p)) if p.qos == 1 => ("PUBACK", p.pid),
            Some(Pkt::Publish(p)) if p.qos == 2 => ("PUBREC", p.pid),
            Some(Pkt::PubRel(a)) => ("PUBCOMP", Some(a.pid)),
            Some(Pkt::Subscribe(x)) => ("SUBACK", Some(x.pid)),
            Some(Pkt::Unsubscribe(x)) => ("UNSUBACK", Some(x.pid)),
            Some(Pkt::PingReq) => ("PINGRESP", None),
            Some(Pkt::Auth(_)) => ("AUTH", None),
            _ => continue,
        };
        reqs.push(Req { idx: reqs.len(), kind, pid, answered: 0, delivered: s.delivered.is_some() });
    }
    // Responses without an identifier (PINGRESP, AUTH) can only be matched by position. The protocol
    // service sees control packets one at a time in arrival order, so the j-th PINGREQ corresponds to
    // the j-th PINGREQ handler invocation; a request whose handler failed owes no response.
    // (when one of several handlers of such a kind failed, position is no evidence either: the library's
    // control buffer may start a later request before an earlier buffered one, so "the j-th invocation failed"
    // does not say which request got no response - those responses are counted, not ordered)
    let mut ambiguous_kinds: Vec<&'static str> = Vec::new();
    for (kind, brief) in [("PINGRESP", "PINGREQ"), ("AUTH", "AUTH")] {
        let outcomes: Vec<Option<Outcome>> = ix
            .gates
            .iter()
            .filter(|g| g.conn == conn && g.kind == GateKind::Proto)
            .filter(|g| matches!(&g.desc, GateDesc::Proto { brief: b, .. } if b.starts_with(brief)))
            .map(|g| g.exit.as_ref().map(|(_, o)| o.clone()))
            .collect();
        if outcomes.len() > 1 && outcomes.iter().any(|o| matches!(o, Some(Outcome::Err | Outcome::Disconnect(_)))) {
            ambiguous_kinds.push(kind);
        }
        let mut j = 0usize;
        for r in reqs.iter_mut().filter(|r| r.kind == kind) {
            if let Some(Some(o)) = outcomes.get(j)
                && matches!(o, Outcome::Err | Outcome::Disconnect(_))
            {
                // mark as not owing a response
                r.answered = u32::MAX;
            }
            j += 1;
        }
    }
    // A PUBREL whose handler failed owes no PUBCOMP, and a PUBREL for an id that is not in use is refused
    // without any handler: when the same id sees several PUBRELs (re-transmissions) and one of their handlers
    // failed, which PUBREL a PUBCOMP answers cannot be told from the wire - such PUBCOMPs are counted, not ordered.
    let ambiguous_pubcomp: Vec<u16> = ix
        .gates
        .iter()
        .filter(|g| g.conn == conn && g.kind == GateKind::Proto && matches!(g.exit, Some((_, Outcome::Err | Outcome::Disconnect(_)))))
        .filter_map(|g| match &g.desc {
            GateDesc::Proto { brief, pid: Some(p) } if brief.starts_with("PUBREL") => Some(*p),
            _ => None,
        })
        .filter(|p| reqs.iter().filter(|r| r.kind == "PUBCOMP" && r.pid == Some(*p)).count() > 1)
        .collect();
    let mut last_idx: Option<usize> = None;
    for e in ix.eps.iter().filter(|e| e.conn == conn) {
        let name = e.pkt.name();
        if !matches!(name, "PUBACK" | "PUBREC" | "PUBCOMP" | "SUBACK" | "UNSUBACK" | "PINGRESP" | "AUTH") {
            continue;
        }
        let pid = e.pkt.pid();
        if ambiguous_kinds.contains(&name) {
            if let Some(r) = reqs.iter_mut().find(|r| r.kind == name && r.answered == 0) {
                r.answered += 1;
            }
            continue;
        }
        if name == "PUBCOMP" && pid.is_some_and(|p| ambiguous_pubcomp.contains(&p)) {
            if let Some(r) = reqs.iter_mut().find(|r| r.kind == "PUBCOMP" && r.pid == pid && r.answered == 0) {
                r.answered += 1;
            }
            continue;
        }
        // which kind of ack answers a publish is C03's business; for ordering a PUBACK written for a
        // QoS 2 publish (or a PUBREC for a QoS 1 one) still is "the response to that request"
        let alt = match name {
            "PUBACK" => "PUBREC",
            "PUBREC" => "PUBACK",
            n => n,
        };
        let pos = reqs
            .iter()
            .position(|r| r.kind == name && r.pid == pid && r.answered == 0)
            .or_else(|| reqs.iter().position(|r| r.kind == alt && r.pid == pid && r.answered == 0));
        let Some(r) = pos.map(|i| &mut reqs[i]) else {
            // a second response for an already answered request, or a response to nothing
            if reqs.iter().any(|r| (r.kind == name || r.kind == alt) && r.pid == pid) {
                viol(v, "C04", format!("C04/duplicate-response/{role}/{name}"), format!("{} written twice", e.pkt.brief()), e.seq);
            } else {
                viol(v, "C04", format!("C04/response-to-nothing/{role}/{name}"), format!("{} answers no request", e.pkt.brief()), e.seq);
            }
            continue;
        };
        r.answered += 1;
        if let Some(l) = last_idx
            && r.idx < l
        {
            viol(
                v,
                "C04",
                format!("C04/out-of-order/{role}/{name}"),
                format!("{} (request #{}) written after the response to request #{l}", e.pkt.brief(), r.idx),
                e.seq,
            );
        }
        last_idx = Some(last_idx.map_or(r.idx, |l| l.max(r.idx)));
    }
    if ix.healthy_settled(conn) && ix.stops.is_empty() {
        for r in reqs.iter().filter(|r| r.delivered && r.answered == 0) {
            viol(v, "C04", format!("C04/lost-response/{role}/{}", r.kind), format!("request #{} ({} #{:?}) never answered on a healthy connection", r.idx, r.kind, r.pid), ix.last_seq);
        }
    }
}

pub fn probe_c04(ix: &Ix<'_>) -> bool {
    // non-trivial: at least two handler invocations overlapped and completed out of arrival order
    let gs: Vec<&G> = ix.gates.iter().filter(|g| matches!(g.kind, GateKind::Publish | GateKind::Proto)).collect();
    for (i, a) in gs.iter().enumerate() {
        for b in gs.iter().skip(i + 1) {
            if let (Some((ax, _)), Some((bx, _))) = (&a.exit, &b.exit)
                && b.enter < *ax
                && bx < ax
            {
                return true;
            }
        }
    }
    false
}


// ------------------------------------------------------------------------------------------
// outbound oracles

fn op_of_topic(t: &str) -> Option<(usize, usize)> {
    // "s{sender}/o{op}" or "s{sender}/o{op}/f{i}"
    let mut it = t.split('/');
    let s = it.next()?.strip_prefix('s')?.parse().ok()?;
    let o = it.next()?.strip_prefix('o')?.parse().ok()?;
    Some((s, o))
}

/// (sender, op) of a packet the endpoint wrote on behalf of a sink operation
fn op_of_packet(p: &Pkt) -> Option<(usize, usize)> {
    match p {
        Pkt::Publish(x) => op_of_topic(&x.topic),
        Pkt::Subscribe(x) => x.filters.first().and_then(|f| op_of_topic(&f.0)),
        Pkt::Unsubscribe(x) => x.filters.first().and_then(|f| op_of_topic(f)),
        _ => None,
    }
}

pub fn check_c05(ix: &Ix<'_>, v: &mut Vec<Violation>) {
    if ix.fault("ack_deviation") > 0 {
        // a deviating (duplicated, premature) acknowledgement is indistinguishable from a real one for
        // the endpoint; the wire-side count is only sound against a peer that acknowledges correctly
        return;
    }
    let role = ix.role();
    let limit = crate::families::send_limit(&ix.out.plan);
    let mut w = 0u32; // QoS1/2 PUBLISH written by the endpoint
    let mut a = 0u32; // final acknowledgements the peer has sent (the endpoint cannot have processed more)
    let mut max = 0u32;
    for e in &ix.out.hist {
        match &e.ev {
            Ev::EpPacket { conn: 0, pkt: Pkt::Publish(p), .. } if p.qos > 0 => {
                w += 1;
                let win = w - a.min(w);
                if win > max {
                    max = win;
                }
                if win > limit {
                    viol(
                        v,
                        "C05",
                        format!("C05/window-exceeded/{role}/limit{limit}"),
                        format!("{win} QoS1/2 publishes written and not finally acknowledged (limit {limit}) when PUBLISH #{:?} {:?} was written", p.pid, p.topic),
                        e.seq,
                    );
                    return;
                }
            }
            Ev::PeerSend { conn: 0, pkt: Some(Pkt::PubAck(_) | Pkt::PubComp(_)), corrupt: None, .. } => a += 1,
            _ => {}
        }
    }
}

pub fn probe_c05(ix: &Ix<'_>) -> bool {
    // the window was full at some point and a sender was parked (an op started while window full)
    let limit = crate::families::send_limit(&ix.out.plan);
    ix.out.peers.first().is_some_and(|p| p.max_window >= limit) && ix.ops.len() as u32 > limit
}

pub fn check_c13(ix: &Ix<'_>, v: &mut Vec<Violation>) {
    let role = ix.role();
    if !ix.healthy_settled(0) || !ix.stops.is_empty() {
        return;
    }
    // precondition of the statement: fewer packets are outstanding than the send limit. An exchange is
    // outstanding from the moment its packet is written until the peer has sent its final ack; an
    // exactly-once exchange whose receipt was never released (cancelled send) stays outstanding.
    let limit = crate::families::send_limit(&ix.out.plan) as i64;
    let mut outstanding: i64 = 0;
    for e in &ix.out.hist {
        match &e.ev {
            Ev::EpPacket { conn: 0, pkt, .. } => match pkt {
                Pkt::Publish(p) if p.qos > 0 => outstanding += 1,
                Pkt::Subscribe(_) | Pkt::Unsubscribe(_) => outstanding += 1,
                _ => {}
            },
            Ev::PeerSend { conn: 0, pkt: Some(p), .. } => match p {
                Pkt::PubAck(_) | Pkt::PubComp(_) | Pkt::SubAck(_) | Pkt::UnsubAck(_) => outstanding -= 1,
                // (a refusing PUBREC is not the final acknowledgement in the sense of C05 / C13: the library keeps
                // the exchange - and its slot - until the application releases the receipt and PUBCOMP arrives)
                _ => {}
            },
            _ => {}
        }
    }
    if outstanding >= limit {
        return;
    }
    // the connection is alive, back-pressure is off, the peer has acknowledged everything:
    // nothing may still be waiting
    for o in &ix.ops {
        if o.done.is_none() {
            let kind = o.brief.split([' ', '{', '(']).next().unwrap_or("");
            viol(
                v,
                "C13",
                format!("C13/blocked-forever/{role}/{kind}"),
                format!("sender {} op {} ({}) started at step {} never completed although the peer acknowledged everything and the window has room", o.sender, o.op, o.brief, o.start),
                ix.last_seq,
            );
        }
    }
    for (i, s) in ix.out.senders.iter().enumerate() {
        if !s.finished && !ix.ops.iter().any(|o| o.sender == i && o.done.is_none()) {
            viol(v, "HARNESS", "harness/sender-not-finished".into(), format!("sender {i} did not finish its script ({}/{})", s.next_op, s.n_ops), ix.last_seq);
        }
    }
}

/// A handler of the stub application failed on purpose in this run (the connection ends with the application's
/// error: nothing the peer or the library did).
fn app_failed(ix: &Ix<'_>) -> bool {
    ix.gates.iter().any(|g| matches!(g.kind, GateKind::Publish | GateKind::Proto) && matches!(g.exit, Some((_, Outcome::Err))))
}

pub fn check_c06(ix: &Ix<'_>, v: &mut Vec<Violation>) {
    let role = ix.role();
    let v5 = ix.ver == Ver::V5;
    let deviated = ix.fault("ack_deviation") > 0;
    // (1b) an identifier is refused as "in use" only while an exchange with it is under way: judged for the
    // caller-chosen identifiers that only explicitly named sends can carry (>= 20: the library's own counter
    // stays far below in these runs). Every other send naming the identifier has either not started yet or
    // has completed (with its acknowledgement, or with a local failure, which must leave nothing behind).
    {
        use crate::plan::AppOp;
        let named = |s: usize, o: usize| -> Option<(u16, bool)> {
            match ix.out.plan.senders.get(s)?.get(o)? {
                AppOp::PubQ1 { pid: Some(p), .. } | AppOp::StreamQ1 { pid: Some(p), .. } => Some((*p, false)),
                AppOp::PubQ1Nb { pid, .. } => Some((pid.unwrap_or(200 + (s * 16 + o) as u16), false)),
                AppOp::PubQ2 { pid: Some(p), .. } | AppOp::Subscribe { pid: Some(p), .. } | AppOp::Unsubscribe { pid: Some(p), .. } => Some((*p, true)),
                _ => None,
            }
        };
        for o in &ix.ops {
            let Some((dsq, OpResult::Err(e))) = &o.done else { continue };
            if !e.starts_with("PacketIdInUse(") {
                continue;
            }
            let Some((n, _)) = named(o.sender, o.op) else { continue };
            if n < 20 || ix.stops.iter().any(|s| s.0 < *dsq) || ix.conn_ended(0) {
                continue;
            }
            let busy = ix.ops.iter().any(|x| {
                (x.sender, x.op) != (o.sender, o.op)
                    && x.start < *dsq
                    && match named(x.sender, x.op) {
                        Some((m, other_kind)) if m == n => {
                            other_kind
                                || match &x.done {
                                    None => true,
                                    Some((xd, OpResult::Ok(_) | OpResult::Err(_))) => *xd > o.start,
                                    Some((_, OpResult::Cancelled)) => true,
                                }
                        }
                        _ => false,
                    }
            });
            // (an identifier the library picked itself may coincide: any such packet on the wire excuses)
            let foreign = ix.eps.iter().any(|x| {
                x.conn == 0 && x.seq < *dsq && x.pkt.pid() == Some(n) && op_of_packet(&x.pkt).is_none_or(|(s, oo)| named(s, oo).is_none_or(|(m, _)| m != n))
            });
            if !busy && !foreign {
                viol(
                    v,
                    "C06",
                    format!("C06/free-id-refused/{role}"),
                    format!("sender {} op {} ({}) was refused with {e} although no exchange with that identifier was under way (every other send naming it had completed)", o.sender, o.op, o.brief),
                    *dsq,
                );
                break;
            }
        }
    }
    // (2) identifiers of simultaneously outstanding sends are non-zero and pairwise distinct
    let mut outstanding: Vec<u16> = Vec::new();
    // (a deviating peer may send a final ack for an id that is not outstanding on the wire: the endpoint can
    // only match it with the next exchange that uses the id - which may already sit in its write buffer -
    // so such an ack closes that next exchange in this wire-side model too)
    let mut early_acks: Vec<u16> = Vec::new();
    for e in &ix.out.hist {
        match &e.ev {
            Ev::EpPacket { conn: 0, pkt, .. } => {
                let pid = match pkt {
                    Pkt::Publish(p) if p.qos > 0 => p.pid,
                    Pkt::Subscribe(x) => Some(x.pid),
                    Pkt::Unsubscribe(x) => Some(x.pid),
                    _ => None,
                };
                if let Some(pid) = pid {
                    if pid == 0 {
                        viol(v, "C06", format!("C06/zero-id/{role}"), format!("{} written with packet id 0", pkt.brief()), e.seq);
                    }
                    if let Some(k) = early_acks.iter().position(|x| *x == pid) {
                        early_acks.swap_remove(k);
                        continue;
                    }
                    if outstanding.contains(&pid) {
                        viol(v, "C06", format!("C06/id-reused-while-outstanding/{role}/{}", pkt.name()), format!("{} reuses id {pid} before the peer acknowledged the earlier exchange", pkt.brief()), e.seq);
                    } else {
                        outstanding.push(pid);
                    }
                }
            }
            // the exchange ends (at the earliest) when the peer sends the final ack
            Ev::PeerSend { conn: 0, pkt: Some(p), .. } => {
                let fin = match p {
                    Pkt::PubAck(a) | Pkt::PubComp(a) => Some(a.pid),
                    Pkt::PubRec(a) if a.code >= 0x80 => Some(a.pid),
                    Pkt::SubAck(x) | Pkt::UnsubAck(x) => Some(x.pid),
                    _ => None,
                };
                if let Some(pid) = fin {
                    if outstanding.contains(&pid) {
                        outstanding.retain(|x| *x != pid);
                    } else if deviated {
                        early_acks.push(pid);
                    }
                }
            }
            _ => {}
        }
    }

    // (1) a send returns Ok only after the peer sent the matching ack, and returns its contents
    for o in &ix.ops {
        let Some((done_seq, OpResult::Ok(info))) = &o.done else { continue };
        let want = match info.what {
            "puback" => "PUBACK",
            "pubrec" => "PUBREC",
            "pubcomp" => "PUBCOMP",
            "suback" => "SUBACK",
            "unsuback" => "UNSUBACK",
            _ => continue,
        };
        // the packet this op put on the wire; Release ops belong to the preceding PubQ2
        let src_op = if info.what == "pubcomp" { o.op.saturating_sub(1) } else { o.op };
        let wire = ix.eps.iter().find(|e| e.conn == 0 && op_of_packet(&e.pkt) == Some((o.sender, src_op)));
        let Some(wire) = wire else {
            viol(v, "C06", format!("C06/ok-without-packet/{role}/{want}"), format!("sender {} op {} returned Ok({}) but its packet never reached the wire", o.sender, o.op, info.what), *done_seq);
            continue;
        };
        let pid = wire.pkt.pid().unwrap_or(0);
        // `wire.seq` is the step at which the packet left the write buffer. A deviating peer may send
        // an ack (duplicate, unsolicited) that happens to carry the id of a send that is encoded but
        // not flushed yet: the endpoint cannot tell it from the real one, so after a deviation the
        // window opens when the operation starts.
        // Normally the acknowledgement is sent after the packet left the write buffer. After a deviation
        // (and only for sends completing after it) what counts is when an acknowledgement ARRIVED: a
        // duplicate acknowledgement sent before a later send with the same (re-used) identifier was even
        // started, but delivered after it, is indistinguishable from the real one for the endpoint; so is
        // one that carries the id of a send that is encoded but not flushed yet.
        let is_ack = |s: &&Sent| s.conn == 0 && matches!(&s.pkt, Some(p) if p.name() == want && p.pid() == Some(pid));
        let dev_before = ix.out.hist.iter().any(|e| e.seq < *done_seq && matches!(e.ev, Ev::Fault { kind: "ack_deviation", .. }));
        let ack = ix.sent.iter().filter(is_ack).find(|s| s.seq > wire.seq && s.seq < *done_seq).or_else(|| {
            if deviated && dev_before {
                // When exactly the endpoint processed a delivered acknowledgement is not observable (it may sit
                // in the socket while the next send with the same identifier is registered). What is
                // observable: the k-th successful completion for (type, id) needs k such acknowledgements
                // sent before it.
                let k = ix
                    .ops
                    .iter()
                    .filter(|x| matches!(&x.done, Some((d, OpResult::Ok(i))) if *d <= *done_seq && i.what == info.what))
                    .filter(|x| {
                        let src = if info.what == "pubcomp" { x.op.saturating_sub(1) } else { x.op };
                        ix.eps.iter().any(|e| e.conn == 0 && op_of_packet(&e.pkt) == Some((x.sender, src)) && e.pkt.pid() == Some(pid))
                    })
                    .count();
                let acks: Vec<&Sent> = ix.sent.iter().filter(is_ack).filter(|s| s.seq < *done_seq).collect();
                if k >= 1 && acks.len() >= k { Some(acks[k - 1]) } else { None }
            } else {
                None
            }
        });
        let Some(ack) = ack else {
            viol(
                v,
                "C06",
                format!("C06/ok-without-matching-ack/{role}/{want}{}", if deviated && dev_before { "/after-deviation" } else { "" }),
                format!("sender {} op {} (id {pid}) returned Ok({}) but the peer sent no {want} #{pid} between the send and the completion", o.sender, o.op, info.what),
                *done_seq,
            );
            continue;
        };
        if v5 {
            if info.pid != pid {
                viol(v, "C06", format!("C06/wrong-ack-returned/{role}/{want}/id"), format!("op with id {pid} returned the ack of id {}", info.pid), *done_seq);
            }
            match &ack.pkt {
                Some(Pkt::PubAck(a) | Pkt::PubRec(a)) if a.code != info.code => {
                    viol(v, "C06", format!("C06/wrong-ack-returned/{role}/{want}/code"), format!("{want} #{pid}: peer sent code 0x{:02x}, application got 0x{:02x}", a.code, info.code), *done_seq);
                }
                Some(Pkt::SubAck(x) | Pkt::UnsubAck(x)) if x.codes != info.codes => {
                    viol(v, "C06", format!("C06/wrong-ack-returned/{role}/{want}/codes"), format!("{want} #{pid}: peer sent {:02x?}, application got {:02x?}", x.codes, info.codes), *done_seq);
                }
                _ => {}
            }
            // user properties and reason string are part of the acknowledgement's contents
            let sent_props = match &ack.pkt {
                Some(Pkt::PubAck(a) | Pkt::PubRec(a)) => Some(&a.props),
                Some(Pkt::SubAck(x) | Pkt::UnsubAck(x)) => Some(&x.props),
                _ => None,
            };
            if let Some(pr) = sent_props
                && info.what != "pubcomp"
                && !(deviated && dev_before)
                && crate::common::rc_props_sig(pr) != info.sig
            {
                viol(v, "C06", format!("C06/wrong-ack-returned/{role}/{want}/properties"), format!("{want} #{pid}: the user properties / reason string the application got differ from what the peer sent ({pr:?})"), *done_seq);
            }
        } else if let Some(Pkt::SubAck(x)) = &ack.pkt
            && want == "SUBACK"
            && x.codes != info.codes
        {
            viol(v, "C06", format!("C06/wrong-ack-returned/{role}/{want}/codes"), format!("SUBACK #{pid}: peer sent {:02x?}, application got {:02x?}", x.codes, info.codes), *done_seq);
        }
    }

    if deviated {
        // (3) the connection ends with a protocol error
        if ix.out.plan.ending != Ending::Stop && !ix.out.budget_hit && ix.out.panic.is_none() {
            let dev_seq = ix.out.hist.iter().find(|e| matches!(e.ev, Ev::Fault { kind: "ack_deviation", .. })).map_or(0, |e| e.seq);
            let delivered = ix.sent.iter().any(|s| s.corrupt && s.seq >= dev_seq && s.delivered.is_some());
            if delivered {
                match ix.stops.first() {
                    // the connection ended; which reason class the control service is shown when the
                    // library's own close races with the error report is C07's clause
                    Some(_) => {}
                    None if ix.conn_done.iter().any(|c| c.1 == 0) => {}
                    None => {
                        let what = ix.out.hist.iter().find_map(|e| match &e.ev {
                            Ev::Note { what } if what.starts_with("deviation") => Some(what.clone()),
                            _ => None,
                        });
                        // "deviation WrongType:SUBACK #2 ..." -> "WrongType-SUBACK"
                        let kind = what
                            .as_deref()
                            .map(|w| {
                                let mut it = w.split([' ', ':']);
                                let _ = it.next();
                                format!("{}-{}", it.next().unwrap_or("?"), it.next().unwrap_or("?"))
                            })
                            .unwrap_or_default();
                        viol(v, "C06", format!("C06/deviation-accepted/{role}/{kind}"), format!("{} was delivered and the connection was not ended", what.unwrap_or_default()), ix.last_seq);
                    }
                }
            }
        }
    } else if if ix.out.plan.senders.iter().flatten().any(|o| matches!(o, crate::plan::AppOp::StreamQ0 { .. } | crate::plan::AppOp::StreamQ1 { .. })) {
        // an application that abandons or over-runs a streamed payload ends its own connection
        ix.healthy_settled(0)
    } else {
        ix.settled_without_faults()
    } {
        // (4) a correct peer: every send whose packet reached the wire completes Ok, no Stop
        // (judged also - above all - when the connection did end)
        if let Some((sq, _, cls)) = ix.stops.first()
            && !ix.ops.iter().any(|o| o.brief.contains("Close"))
            && !(matches!(cls, StopClass::AppError) && app_failed(ix))
        {
            viol(v, "C06", format!("C06/correct-peer-connection-ended/{role}"), format!("the peer acknowledged everything correctly and in order, yet the connection ended: {cls:?}"), *sq);
        }
        if ix.stops.is_empty() {
            for o in &ix.ops {
                if let Some((sq, OpResult::Err(e))) = &o.done {
                    let on_wire = ix.eps.iter().any(|x| x.conn == 0 && op_of_packet(&x.pkt) == Some((o.sender, o.op)));
                    if on_wire && !o.cancelled {
                        viol(v, "C06", format!("C06/correct-peer-send-failed/{role}"), format!("sender {} op {} ({}) reached the wire, was acknowledged correctly, but returned {e}", o.sender, o.op, o.brief), *sq);
                    }
                }
            }
            // ... and does complete: after the closing phase (everything acknowledged, stalls lifted) no
            // awaiting send is left pending on a live connection
            // (not judged when send futures were cancelled: an abandoned exactly-once exchange keeps its
            // window slot for good, and what then stays parked is C13's business)
            // (nor with streamed publishes around: while one is in progress every other send, a PUBREL written
            // by a dropped receipt included, is refused by design, and the exchange it belonged to stays open)
            let streaming = ix.out.plan.senders.iter().flatten().any(|o| matches!(o, crate::plan::AppOp::StreamQ0 { .. } | crate::plan::AppOp::StreamQ1 { .. }));
            if ix.healthy_settled(0) && !ix.conn_ended(0) && !streaming && ix.fault("cancel_op") + ix.fault("cancel_unpolled") == 0 {
                for o in ix.ops.iter().filter(|o| o.done.is_none() && !o.cancelled) {
                    let kind = o.brief.split([' ', '{', '(']).next().unwrap_or("?");
                    if matches!(kind, "PubQ1" | "PubQ2" | "Release" | "Subscribe" | "Unsubscribe") {
                        viol(v, "C06", format!("C06/correct-peer-send-never-completed/{role}/{kind}"), format!("sender {} op {} ({}) started at step {} and never completed although the peer acknowledged everything it received", o.sender, o.op, o.brief, o.start), ix.last_seq);
                        break;
                    }
                }
            }
        }
    }
}

/// C06 over a long history (family C06L; linear time): identifiers on the wire are non-zero and never carried by
/// two exchanges at once, every send completes with the acknowledgement of its own identifier, the correct
/// peer's connection is never ended - all the way through the wrap of the 16-bit identifier counter.
pub fn check_c06_long(ix: &Ix<'_>, v: &mut Vec<Violation>) {
    use std::collections::{HashMap, HashSet};
    let role = ix.role();
    if let Some(p) = &ix.out.panic {
        let loc = p.rsplit(" @ ").next().unwrap_or("").to_string();
        viol(v, "C06", format!("C06/panic/{role}/{loc}"), format!("panic on a connection with a correct peer: {p}"), ix.last_seq);
        return;
    }
    if ix.out.budget_hit {
        return;
    }
    let mut outstanding: HashSet<u16> = HashSet::new();
    let mut pid_of_op: HashMap<(usize, usize), u16> = HashMap::new();
    let mut max_pid = 0u16;
    let mut wrapped = false;
    for e in &ix.out.hist {
        match &e.ev {
            Ev::EpPacket { conn: 0, pkt, .. } => {
                let pid = match pkt {
                    Pkt::Publish(p) if p.qos > 0 => p.pid,
                    Pkt::Subscribe(x) => Some(x.pid),
                    Pkt::Unsubscribe(x) => Some(x.pid),
                    _ => None,
                };
                if let Some(pid) = pid {
                    if pid == 0 {
                        viol(v, "C06", format!("C06/zero-id/{role}"), format!("{} written with packet id 0", pkt.brief()), e.seq);
                        return;
                    }
                    if !outstanding.insert(pid) {
                        viol(v, "C06", format!("C06/id-reused-while-outstanding/{role}/{}", pkt.name()), format!("{} reuses id {pid} before the peer acknowledged the earlier exchange", pkt.brief()), e.seq);
                        return;
                    }
                    if pid < max_pid && max_pid > 60_000 {
                        wrapped = true;
                    }
                    max_pid = max_pid.max(pid);
                    if let Some(op) = op_of_packet(pkt) {
                        pid_of_op.insert(op, pid);
                    }
                }
            }
            Ev::PeerSend { conn: 0, pkt: Some(pkt), .. } => match pkt {
                Pkt::PubAck(a) | Pkt::PubComp(a) => {
                    outstanding.remove(&a.pid);
                }
                Pkt::SubAck(x) | Pkt::UnsubAck(x) => {
                    outstanding.remove(&x.pid);
                }
                _ => {}
            },
            _ => {}
        }
    }
    if let Some((sq, _, cls)) = ix.stops.first() {
        viol(v, "C06", format!("C06/correct-peer-connection-ended/{role}"), format!("the peer acknowledged everything correctly and in order, yet the connection ended: {cls:?}"), *sq);
        return;
    }
    for o in &ix.ops {
        match &o.done {
            Some((sq, OpResult::Ok(a))) if a.what == "puback" || a.what == "pubrec" => {
                if let Some(w) = pid_of_op.get(&(o.sender, o.op))
                    && a.pid != 0
                    && a.pid != *w
                {
                    viol(v, "C06", format!("C06/completed-with-foreign-ack/{role}"), format!("sender {} op {} was written with id {w} and completed with the acknowledgement of id {}", o.sender, o.op, a.pid), *sq);
                    return;
                }
            }
            Some((sq, OpResult::Err(e))) => {
                viol(v, "C06", format!("C06/correct-peer-send-failed/{role}"), format!("sender {} op {} ({}) returned {e}", o.sender, o.op, o.brief), *sq);
                return;
            }
            None if ix.healthy_settled(0) => {
                viol(v, "C06", format!("C06/correct-peer-send-never-completed/{role}/long"), format!("sender {} op {} ({}) started at step {} and never completed", o.sender, o.op, o.brief, o.start), ix.last_seq);
                return;
            }
            _ => {}
        }
    }
    let _ = wrapped;
}

pub fn check_c14(ix: &Ix<'_>, v: &mut Vec<Violation>) {
    if ix.fault("ack_deviation") > 0 {
        // the statement is about correct peers; deviating acknowledgements belong to C06
        return;
    }
    if ix.out.plan.senders.iter().flatten().any(|o| matches!(o, crate::plan::AppOp::StreamQ0 { .. } | crate::plan::AppOp::StreamQ1 { .. })) {
        // while a streamed PUBLISH is in progress every other send (PUBREL included) is refused by
        // design (C08); the statement of C14 quantifies over non-streamed traffic
        return;
    }
    let role = ix.role();
    let v5 = ix.ver == Ver::V5;
    // a correct peer, no injected connection fault, no local close: nothing may end the connection,
    // so every clause is judged whether or not the connection is still alive
    let local_close = ix.ops.iter().any(|o| o.brief.contains("Close"));
    let bad_ops = ix.out.plan.senders.iter().flatten().any(|o| matches!(o, crate::plan::AppOp::BadTopicTooLong { .. } | crate::plan::AppOp::BadSubscribe { .. }));
    let healthy = ix.settled_without_faults() && !local_close && !bad_ops;
    if healthy
        && let Some((sq, _, cls)) = ix.stops.first()
        && !(matches!(cls, StopClass::AppError) && app_failed(ix))
        && ix.ops.iter().any(|o| (o.brief.starts_with("PubQ2") || o.brief == "Release" || o.brief == "DropReceipt") && o.done.as_ref().is_none_or(|d| d.0 >= *sq))
    {
        viol(v, "C14", format!("C14/exchanges-cancelled-by-connection-end/{role}"), format!("the peer acknowledged everything correctly, yet the connection ended with exactly-once exchanges outstanding: {cls:?}"), *sq);
        return;
    }
    // every QoS2 op and its release
    for o in ix.ops.iter().filter(|o| o.brief.starts_with("PubQ2")) {
        let wire = ix.eps.iter().find(|e| e.conn == 0 && matches!(&e.pkt, Pkt::Publish(p) if op_of_topic(&p.topic) == Some((o.sender, o.op))));
        let Some(wire) = wire else { continue };
        let pid = wire.pkt.pid().unwrap_or(0);
        if let Some((sq, OpResult::Ok(info))) = &o.done {
            if v5 && info.pid != pid {
                viol(v, "C14", format!("C14/wrong-receipt/{role}"), format!("exactly-once send with id {pid} resolved with the PUBREC of id {}", info.pid), *sq);
            }
            let rec = ix.sent.iter().find(|s| s.seq > wire.seq && s.seq < *sq && matches!(&s.pkt, Some(Pkt::PubRec(a)) if a.pid == pid));
            if rec.is_none() {
                viol(v, "C14", format!("C14/receipt-without-pubrec/{role}"), format!("exactly-once send #{pid} resolved before the peer sent its PUBREC"), *sq);
            }
        }
        // the release / drop that follows in the same sender
        let rel = ix.ops.iter().find(|r| r.sender == o.sender && r.op == o.op + 1);
        // identifiers may be re-used once their exchange has finished: this exchange owns what is written
        // between its PUBLISH and the next exactly-once PUBLISH with the same identifier
        let next_same = ix.eps.iter().filter(|e| e.conn == 0 && e.seq > wire.seq && matches!(&e.pkt, Pkt::Publish(p) if p.qos == 2 && p.pid == Some(pid))).map(|e| e.seq).min().unwrap_or(u64::MAX);
        let pubrels: Vec<&EpP> = ix.eps.iter().filter(|e| e.conn == 0 && e.seq > wire.seq && e.seq < next_same && matches!(&e.pkt, Pkt::PubRel(a) if a.pid == pid)).collect();
        if pubrels.len() > 1 {
            viol(v, "C14", format!("C14/pubrel-twice/{role}"), format!("{} PUBREL packets written for id {pid}", pubrels.len()), pubrels[1].seq);
        }
        if let Some(r) = rel {
            if let Some(first) = pubrels.first()
                && first.seq < r.start
            {
                viol(v, "C14", format!("C14/pubrel-before-release/{role}"), format!("PUBREL #{pid} written before the application released the receipt"), first.seq);
            }
            if let Some((sq, res)) = &r.done {
                match res {
                    OpResult::Ok(info) if info.what == "pubcomp" => {
                        let comp = ix.sent.iter().find(|s| s.seq > wire.seq && s.seq < *sq && matches!(&s.pkt, Some(Pkt::PubComp(a)) if a.pid == pid));
                        if comp.is_none() {
                            viol(v, "C14", format!("C14/release-resolved-without-pubcomp/{role}"), format!("release of #{pid} resolved before the peer sent PUBCOMP #{pid}"), *sq);
                        }
                        if pubrels.is_empty() {
                            viol(v, "C14", format!("C14/release-without-pubrel/{role}"), format!("release of #{pid} resolved but no PUBREL #{pid} was written"), *sq);
                        }
                    }
                    OpResult::Ok(_) => {
                        // receipt dropped: exactly one PUBREL must (eventually) be written
                        if healthy && pubrels.is_empty() {
                            viol(v, "C14", format!("C14/dropped-receipt-no-pubrel/{role}"), format!("receipt of #{pid} was dropped but no PUBREL #{pid} was written"), ix.last_seq);
                        }
                    }
                    OpResult::Err(e) => {
                        if healthy && !r.cancelled {
                            let k = e.split(['(', ' ']).next().unwrap_or("err").to_string();
                            viol(v, "C14", format!("C14/release-failed/{role}/{k}"), format!("release of #{pid} failed with {e} on a healthy connection (another exchange interfered)"), *sq);
                        }
                    }
                    OpResult::Cancelled => {}
                }
            } else if healthy {
                viol(v, "C14", format!("C14/release-never-completed/{role}"), format!("release of #{pid} never completed although PUBCOMP #{pid} was sent"), ix.last_seq);
            }
        }
    }
    // PUBRELs for ids nobody sent as QoS2
    for e in ix.eps.iter().filter(|e| e.conn == 0) {
        if let Pkt::PubRel(a) = &e.pkt {
            let known = ix.eps.iter().any(|x| x.seq < e.seq && matches!(&x.pkt, Pkt::Publish(p) if p.qos == 2 && p.pid == Some(a.pid)));
            if !known {
                viol(v, "C14", format!("C14/pubrel-for-unknown-id/{role}"), format!("PUBREL #{} written but no QoS2 PUBLISH with that id", a.pid), e.seq);
            }
        }
    }
}

pub fn probe_c14(ix: &Ix<'_>) -> bool {
    // two exactly-once exchanges overlapped
    let q2: Vec<&OpRec> = ix.ops.iter().filter(|o| o.brief.starts_with("PubQ2")).collect();
    q2.iter().enumerate().any(|(i, a)| {
        q2.iter().skip(i + 1).any(|b| {
            let a_end = ix.ops.iter().find(|r| r.sender == a.sender && r.op == a.op + 1).and_then(|r| r.done.as_ref().map(|d| d.0)).unwrap_or(u64::MAX);
            b.sender != a.sender && b.start < a_end
        })
    })
}

/// C08 beyond the always-on parse monitor: attribution of what is on the wire
pub fn check_c08(ix: &Ix<'_>, v: &mut Vec<Violation>) {
    let role = ix.role();
    for e in ix.eps.iter().filter(|e| e.conn == 0) {
        if let Some((s, o)) = op_of_packet(&e.pkt) {
            let op = ix.ops.iter().find(|x| x.sender == s && x.op == o);
            match op {
                None => viol(v, "C08", format!("C08/unattributable-packet/{role}"), format!("{} on the wire belongs to no started operation", e.pkt.brief()), e.seq),
                Some(op) => {
                    // a send that returned an error leaves no bytes behind; errors that arrive after the
                    // packet was written (disconnect while waiting for the ack) are not "failed sends"
                    if let Some((_, OpResult::Err(err))) = &op.done {
                        let local = err.starts_with("Encode(") || err.starts_with("PacketIdInUse") || err.contains("ExpectPayload");
                        if local && !op.brief.starts_with("Stream") {
                            viol(v, "C08", format!("C08/failed-send-left-packet/{role}/{}", err.split('(').next().unwrap_or("")), format!("op {} returned {err} but {} was written", op.brief, e.pkt.brief()), e.seq);
                        }
                    }
                    // payload integrity of what was written
                    if let Pkt::Publish(p) = &e.pkt
                        && !op.brief.starts_with("BadTopic")
                    {
                        let tag = crate::app_v5::op_tag(s, o);
                        if p.payload != crate::world::make_payload(tag, p.payload.len()) {
                            viol(v, "C08", format!("C08/payload-corrupted-on-wire/{role}"), format!("payload of {} differs from what the application sent", e.pkt.brief()), e.seq);
                        }
                    }
                }
            }
        }
    }
}


// ------------------------------------------------------------------------------------------
// C11: inbound packet identifiers stay reserved until their exchange is acknowledged

#[derive(Clone, Copy, Debug, PartialEq, Eq)]
enum ReqKind {
    Pub1,
    Pub2,
    Sub,
    Unsub,
}

impl ReqKind {
    fn name(self) -> &'static str {
        match self {
            ReqKind::Pub1 => "PUBLISH1",
            ReqKind::Pub2 => "PUBLISH2",
            ReqKind::Sub => "SUBSCRIBE",
            ReqKind::Unsub => "UNSUBSCRIBE",
        }
    }
    fn closing(self) -> &'static str {
        match self {
            ReqKind::Pub1 => "PUBACK",
            ReqKind::Pub2 => "PUBCOMP",
            ReqKind::Sub => "SUBACK",
            ReqKind::Unsub => "UNSUBACK",
        }
    }
}

#[derive(Clone, Copy, Debug, PartialEq, Eq)]
enum Fate {
    Handled(u64),
    Refused(u64),
    Unknown,
}

/// Did the peer send a PUBREL for `pid` that cannot belong to the holder's exchange: any PUBREL when
/// the holder is not a QoS 2 publish, or one sent before the endpoint wrote the holder's PUBREC.
fn stray_pubrel(ix: &Ix<'_>, pid: u16, holder_seq: u64, holder_is_q2: bool, before: u64) -> bool {
    let pubrec = ix.eps.iter().find(|e| e.seq > holder_seq && matches!(&e.pkt, Pkt::PubRec(a) if a.pid == pid)).map(|e| e.seq);
    ix.sent.iter().any(|x| {
        x.seq < before
            && matches!(&x.pkt, Some(Pkt::PubRel(a)) if a.pid == pid)
            && (!holder_is_q2 || pubrec.is_none_or(|p| x.seq < p))
    })
}

pub fn check_c11(ix: &Ix<'_>, v: &mut Vec<Violation>) {
    let role = ix.role();
    let v5 = ix.ver == Ver::V5;
    let conn = 0usize;
    let first_end = ix
        .stops
        .iter()
        .filter(|s| s.1 == conn)
        .map(|s| s.0)
        .chain(ix.conn_done.iter().filter(|c| c.1 == conn).map(|c| c.0))
        .chain(ix.ep_closed.iter().filter(|c| c.1 == conn).map(|c| c.0))
        .min();
    let settled = ix.out.plan.ending != Ending::Stop && ix.settle_seq.is_some() && !ix.out.budget_hit && ix.out.panic.is_none();

    struct Req {
        seq: u64,
        delivered: Option<u64>,
        kind: ReqKind,
        pid: u16,
        tag: String,
        fate: Fate,
        gate: Option<usize>,
    }
    let mut reqs: Vec<Req> = Vec::new();
    for s in ix.sent.iter().filter(|s| s.conn == conn && !s.corrupt) {
        let (kind, pid, tag) = match &s.pkt {
            Some(Pkt::Publish(p)) if p.qos == 1 => (ReqKind::Pub1, p.pid.unwrap_or(0), p.topic.clone()),
            Some(Pkt::Publish(p)) if p.qos == 2 => (ReqKind::Pub2, p.pid.unwrap_or(0), p.topic.clone()),
            Some(Pkt::Subscribe(x)) => (ReqKind::Sub, x.pid, x.filters[0].0.clone()),
            Some(Pkt::Unsubscribe(x)) => (ReqKind::Unsub, x.pid, x.filters[0].clone()),
            _ => continue,
        };
        reqs.push(Req { seq: s.seq, delivered: s.delivered, kind, pid, tag, fate: Fate::Unknown, gate: None });
    }
    // fate of every request
    for r in &mut reqs {
        let gate = match r.kind {
            ReqKind::Pub1 | ReqKind::Pub2 => ix.pub_gates(conn).find(|(_, seen)| seen.topic == r.tag).map(|(g, _)| g),
            ReqKind::Sub | ReqKind::Unsub => ix.gates.iter().find(|g| {
                g.conn == conn && matches!(&g.desc, GateDesc::Proto { brief, .. } if brief.ends_with(&format!(" {}", r.tag)) && brief.starts_with(r.kind.name()))
            }),
        };
        // (control messages still buffered when the connection ends are flushed through the protocol
        // service during shutdown: such invocations are not "deliveries" of the request)
        // (with the option that keeps handling publishes after the connection has been closed, a publish
        // handler invoked after the close is a delivery like any other)
        let after_close_counts = matches!(r.kind, ReqKind::Pub1 | ReqKind::Pub2) && ix.out.plan.cfg.handle_qos_after_disconnect.is_some();
        if let Some(g) = gate.filter(|g| after_close_counts || first_end.is_none_or(|e| g.enter <= e)) {
            r.fate = Fate::Handled(g.enter);
            r.gate = Some(g.id);
            continue;
        }
    }
    // wire-side model: an id is open from the request until the endpoint wrote the closing ack.
    // Responses are written in request order, so the k-th handled exchange of one (id, closing
    // packet type) is closed by the k-th such closing packet (refusals 0x91 / 0x92 excluded).
    #[derive(Clone, Copy, PartialEq, Eq, PartialOrd, Ord)]
    enum Close {
        PubAck,
        PubRecNeg,
        PubComp,
        SubAck,
        UnsubAck,
    }
    let close_class = |r: &Req| -> Close {
        match r.kind {
            ReqKind::Pub1 => Close::PubAck,
            ReqKind::Pub2 => {
                if r.gate.is_some_and(|g| matches!(ix.gates[g].exit, Some((_, Outcome::Neg(c))) if c >= 0x80)) {
                    Close::PubRecNeg
                } else {
                    Close::PubComp
                }
            }
            ReqKind::Sub => Close::SubAck,
            ReqKind::Unsub => Close::UnsubAck,
        }
    };
    let mut acks: BTreeMap<(u16, Close), Vec<u64>> = BTreeMap::new();
    for e in ix.eps.iter().filter(|e| e.conn == conn) {
        let (pid, class) = match &e.pkt {
            Pkt::PubAck(a) if a.code != 0x91 => (a.pid, Close::PubAck),
            Pkt::PubRec(a) if a.code >= 0x80 && a.code != 0x91 => (a.pid, Close::PubRecNeg),
            Pkt::PubComp(a) if a.code != 0x92 => (a.pid, Close::PubComp),
            Pkt::SubAck(x) if !(v5 && !x.codes.is_empty() && x.codes.iter().all(|c| *c == 0x91)) => (x.pid, Close::SubAck),
            Pkt::UnsubAck(x) if !(v5 && !x.codes.is_empty() && x.codes.iter().all(|c| *c == 0x91)) => (x.pid, Close::UnsubAck),
            _ => continue,
        };
        acks.entry((pid, class)).or_default().push(e.seq);
    }
    let mut nth: BTreeMap<(u16, Close), usize> = BTreeMap::new();
    let closed_of: Vec<Option<u64>> = reqs
        .iter()
        .map(|r| {
            if !matches!(r.fate, Fate::Handled(_)) {
                return None;
            }
            let key = (r.pid, close_class(r));
            let k = nth.entry(key).or_insert(0);
            let c = acks.get(&key).and_then(|l| l.get(*k)).copied();
            *k += 1;
            c
        })
        .collect();
    if v5 {
        // refusals: the ack type proper to the packet carrying Packet-Identifier-in-use (0x91). They are
        // written at once (not queued behind earlier responses), so a refusal is attributed to an
        // unhandled request sent before it - preferring one that has a possible holder (an earlier
        // request with the id that is not known to be closed), so that a legitimate reading of the
        // history is chosen whenever there is one.
        for e in ix.eps.iter().filter(|e| e.conn == conn) {
            let (pid, kinds): (u16, &[ReqKind]) = match &e.pkt {
                Pkt::PubAck(a) if a.code == 0x91 => (a.pid, &[ReqKind::Pub1, ReqKind::Pub2]),
                Pkt::PubRec(a) if a.code == 0x91 => (a.pid, &[ReqKind::Pub2]),
                Pkt::SubAck(x) if !x.codes.is_empty() && x.codes.iter().all(|c| *c == 0x91) => (x.pid, &[ReqKind::Sub]),
                Pkt::UnsubAck(x) if !x.codes.is_empty() && x.codes.iter().all(|c| *c == 0x91) => (x.pid, &[ReqKind::Unsub]),
                _ => continue,
            };
            let cands: Vec<usize> = (0..reqs.len())
                .filter(|i| reqs[*i].fate == Fate::Unknown && reqs[*i].pid == pid && kinds.contains(&reqs[*i].kind) && reqs[*i].delivered.is_some_and(|d| d < e.seq))
                .collect();
            let with_holder = cands.iter().copied().find(|i| {
                (0..*i).any(|j| {
                    reqs[j].pid == pid
                        && match reqs[j].fate {
                            // (the identifier is checked when the request is dispatched, which is not before it
                            // has been delivered: an exchange closed by then cannot be what it collided with)
                            Fate::Handled(_) => closed_of[j].is_none_or(|c| c > reqs[*i].delivered.unwrap_or(reqs[*i].seq)),
                            Fate::Unknown => true,
                            Fate::Refused(_) => false,
                        }
                })
            });
            if let Some(i) = with_holder.or(cands.first().copied()) {
                reqs[i].fate = Fate::Refused(e.seq);
            }
        }
    }
    // v3 ends the connection on the first refused request. Requests are dispatched in arrival order,
    // so the refused one is the first request that never reached a handler and was delivered before
    // the stop (its kind is named in the violation).
    if !v5
        && let Some((sq, _, StopClass::Protocol(msg))) = ix.stops.iter().find(|s| s.1 == conn)
        && msg.contains("PacketId_2_2_1_3")
    {
        let want = if msg.contains("_Pub)") {
            [ReqKind::Pub1, ReqKind::Pub2]
        } else if msg.contains("_Sub)") {
            [ReqKind::Sub, ReqKind::Sub]
        } else {
            [ReqKind::Unsub, ReqKind::Unsub]
        };
        // candidates: not handled, delivered before the stop, of the kind named in the violation; the
        // refused one collides with an earlier request of the same id
        let cands: Vec<usize> = (0..reqs.len())
            .filter(|i| reqs[*i].fate == Fate::Unknown && reqs[*i].delivered.is_some_and(|d| d < *sq) && want.contains(&reqs[*i].kind))
            .collect();
        let colliding = cands.iter().copied().find(|i| (0..*i).any(|j| reqs[j].pid == reqs[*i].pid && closed_of[j].is_none_or(|c| c > reqs[*i].delivered.unwrap_or(reqs[*i].seq))));
        if let Some(i) = colliding.or(cands.first().copied()) {
            reqs[i].fate = Fate::Refused(*sq);
        }
    }

    for i in 0..reqs.len() {
        let (pid, seq, kind) = (reqs[i].pid, reqs[i].seq, reqs[i].kind);
        if first_end.is_some_and(|e| seq > e) {
            break;
        }
        // earlier requests that may hold the id when this one is sent: accepted (or possibly accepted and
        // waiting for their handler) and not closed on the wire yet
        let holders: Vec<usize> = (0..i)
            .filter(|j| {
                let e = &reqs[*j];
                e.pid == pid
                    && e.delivered.is_some()
                    && match e.fate {
                        Fate::Refused(_) => false,
                        Fate::Unknown => true,
                        Fate::Handled(_) => closed_of[*j].is_none_or(|c| c > seq),
                    }
            })
            .collect();
        if holders.is_empty() {
            // (A) fresh identifier: the request must be accepted
            match reqs[i].fate {
                Fate::Handled(_) => {}
                Fate::Refused(sq) => {
                    viol(
                        v,
                        "C11",
                        format!("C11/free-id-refused/{role}/{}", kind.name()),
                        format!("{} #{pid} ({}) was refused as id-in-use although every earlier exchange with that id had been acknowledged on the wire", kind.name(), reqs[i].tag),
                        sq,
                    );
                    if kind.name().starts_with("PUBLISH") {
                        // the same fact read as C03: a PUBLISH the endpoint had to accept never reached the handler
                        viol(
                            v,
                            "C03",
                            format!("C03/acceptable-publish-refused/{role}/{}", kind.name()),
                            format!("{} #{pid} ({}) re-uses an identifier whose earlier exchange is complete; it was answered with id-in-use and its handler never ran", kind.name(), reqs[i].tag),
                            sq,
                        );
                    }
                }
                Fate::Unknown => {
                    if settled && first_end.is_none() && reqs[i].delivered.is_some() && ix.fault("fin") + ix.fault("rst") == 0 {
                        viol(v, "C11", format!("C11/free-id-not-handled/{role}/{}", kind.name()), format!("{} #{pid} ({}) with a free id was neither handled nor refused", kind.name(), reqs[i].tag), ix.last_seq);
                    }
                }
            }
            continue;
        }
        let fate_seq = match reqs[i].fate {
            Fate::Handled(s) | Fate::Refused(s) => s,
            Fate::Unknown => continue,
        };
        // is one of the holders certainly still in use when this request meets its fate?
        for h in holders {
            let holder_kind = reqs[h].kind;
            let Some(g) = reqs[h].gate.map(|g| &ix.gates[g]) else { continue };
            // (gates released by the closing phase have no GateOpen event: their exit is the evidence)
            let opened = g.open.as_ref().map(|o| o.0).or(g.exit.as_ref().map(|x| x.0));
            let handler_pending = opened.is_none_or(|o| o > fate_seq);
            let certainly_in_use = if holder_kind == ReqKind::Pub2 {
                // in use until PUBCOMP is produced, i.e. until the protocol handler of this exchange's
                // PUBREL has completed (a PUBREL is only accepted after the publish handler finished)
                let neg = matches!(g.exit, Some((_, Outcome::Err))) || matches!(g.exit, Some((_, Outcome::Neg(c))) if c >= 0x80);
                let handler_done = g.exit.as_ref().map(|x| x.0);
                let rel_done = ix.gates.iter().any(|r| {
                    r.conn == conn
                        && r.kind == GateKind::Proto
                        && matches!(&r.desc, GateDesc::Proto { brief, .. } if *brief == format!("PUBREL #{pid}"))
                        && handler_done.is_some_and(|h| r.enter >= h && r.id > g.id)
                        && r.exit.as_ref().is_some_and(|x| x.0 <= fate_seq)
                });
                !neg && !rel_done
            } else {
                handler_pending
            };
            if certainly_in_use && let Fate::Handled(sq) = reqs[i].fate {
                viol(
                    v,
                    "C11",
                    format!(
                        "C11/in-use-id-delivered/{role}/{}-then-{}{}",
                        holder_kind.name(),
                        kind.name(),
                        if stray_pubrel(ix, pid, reqs[h].seq, holder_kind == ReqKind::Pub2, sq) { "/after-stray-pubrel" } else { "" }
                    ),
                    format!("{} #{pid} ({}) reached a handler while {} #{pid} ({}) was still unacknowledged", kind.name(), reqs[i].tag, holder_kind.name(), reqs[h].tag),
                    sq,
                );
                if holder_kind.name().starts_with("PUBLISH") && kind.name().starts_with("PUBLISH") {
                    // the same fact read as C03: for the peer this is (a retransmission of) the message whose
                    // exchange is still open - the publish handler ran a second time for it
                    viol(
                        v,
                        "C03",
                        format!("C03/handled-again-while-exchange-open/{role}/{}-then-{}", holder_kind.name(), kind.name()),
                        format!("{} #{pid} ({}) was handed to the publish handler although the exchange of {} #{pid} ({}) was not finished: one identifier, two handler runs", kind.name(), reqs[i].tag, holder_kind.name(), reqs[h].tag),
                        sq,
                    );
                }
                break;
            }
        }
    }

    // (D) PUBREL for an identifier that is not in use
    for s in ix.sent.iter().filter(|s| s.conn == conn && !s.corrupt) {
        let Some(Pkt::PubRel(a)) = &s.pkt else { continue };
        let Some(dseq) = s.delivered else { continue };
        if first_end.is_some_and(|e| dseq > e) {
            continue;
        }
        // any earlier request with this id whose exchange might still be open (or ambiguous)?
        let maybe_in_use = (0..reqs.len()).any(|j| {
            let r = &reqs[j];
            r.pid == a.pid && r.seq < s.seq && matches!(r.fate, Fate::Handled(_) | Fate::Unknown) && closed_of[j].is_none_or(|c| c > s.seq)
        });
        if maybe_in_use {
            continue;
        }
        if v5 {
            let comp = ix.eps.iter().find(|e| e.conn == conn && e.seq > s.seq && matches!(&e.pkt, Pkt::PubComp(x) if x.pid == a.pid));
            match comp {
                Some(e) => {
                    if let Pkt::PubComp(x) = &e.pkt
                        && x.code != 0x92
                    {
                        viol(v, "C11", format!("C11/stray-pubrel-accepted/{role}"), format!("PUBREL #{} for an id that is not in use was answered with PUBCOMP 0x{:02x}", a.pid, x.code), e.seq);
                        // C03: a success PUBCOMP is only written in answer to the PUBREL of an accepted QoS 2 publish
                        if x.code == 0 {
                            viol(v, "C03", format!("C03/pubcomp-without-accepted-publish/{role}"), format!("PUBCOMP #{} (success) although no accepted QoS 2 PUBLISH with that id was waiting for its PUBREL", a.pid), e.seq);
                        }
                    }
                }
                None => {
                    if settled && first_end.is_none() && ix.stops.is_empty() {
                        viol(v, "C11", format!("C11/stray-pubrel-unanswered/{role}"), format!("PUBREL #{} for an id that is not in use got no PUBCOMP 0x92", a.pid), ix.last_seq);
                    }
                }
            }
        } else if settled && first_end.is_none() {
            viol(v, "C11", format!("C11/stray-pubrel-accepted/{role}"), format!("PUBREL #{} for an id that is not in use did not end the v3 connection", a.pid), ix.last_seq);
        }
    }
}

pub fn probe_c07(ix: &Ix<'_>) -> bool {
    // something was in flight when the connection ended
    let conn = 0usize;
    let Some(end) = ix
        .stops
        .iter()
        .filter(|s| s.1 == conn)
        .map(|s| s.0)
        .chain(ix.conn_done.iter().filter(|c| c.1 == conn).map(|c| c.0))
        .chain(ix.ep_closed.iter().filter(|c| c.1 == conn).map(|c| c.0))
        .min()
    else {
        return false;
    };
    let handler = ix.gates.iter().any(|g| g.conn == conn && matches!(g.kind, GateKind::Publish | GateKind::Proto) && g.enter < end && g.exit.as_ref().is_none_or(|x| x.0 >= end));
    let op = ix.ops.iter().any(|o| o.start < end && o.done.as_ref().is_none_or(|d| d.0 >= end));
    handler || op
}

pub fn probe_c12(ix: &Ix<'_>) -> bool {
    // a configured limit was reached
    let cfg = &ix.out.plan.cfg;
    let v5 = ix.ver == Ver::V5;
    let mut running: Vec<(usize, usize, u8)> = Vec::new();
    for e in &ix.out.hist {
        match &e.ev {
            Ev::GateEnter { gate, conn: 0, kind: GateKind::Publish, desc: GateDesc::Publish(seen), .. } => {
                let size = ix.sent.iter().find(|s| matches!(&s.pkt, Some(Pkt::Publish(p)) if p.topic == seen.topic)).map_or(0, |s| remaining_len(s.len));
                running.push((*gate, size, seen.qos));
                let total: usize = running.iter().map(|r| r.1).sum();
                if !v5 && cfg.max_receive != 0 && running.len() >= cfg.max_receive as usize {
                    return true;
                }
                if ix.out.plan.role.is_server() && cfg.max_receive_size != 0 && total > cfg.max_receive_size {
                    return true;
                }
                let rm5 = if ix.out.plan.role == crate::world::Role::S5 { cfg.hs_receive_max.unwrap_or(cfg.max_receive) } else { cfg.max_receive };
                if v5 && rm5 != 0 && running.iter().filter(|r| r.2 > 0).count() >= rm5 as usize {
                    return true;
                }
            }
            Ev::GateExit { gate, .. } | Ev::GateDropped { gate } => running.retain(|r| r.0 != *gate),
            _ => {}
        }
    }
    false
}

pub fn probe_c11(ix: &Ix<'_>) -> bool {
    // an identifier was used by two requests in the run
    let mut seen: Vec<u16> = Vec::new();
    for s in ix.sent.iter().filter(|s| !s.corrupt) {
        let pid = match &s.pkt {
            Some(Pkt::Publish(p)) if p.qos > 0 => p.pid,
            Some(Pkt::Subscribe(x)) => Some(x.pid),
            Some(Pkt::Unsubscribe(x)) => Some(x.pid),
            _ => None,
        };
        if let Some(p) = pid {
            if seen.contains(&p) {
                return true;
            }
            seen.push(p);
        }
    }
    false
}

// ------------------------------------------------------------------------------------------
// C12: inbound concurrency limits

fn remaining_len(total: usize) -> usize {
    // frame = 1 byte + varint(remaining) + remaining
    for hl in 2..=5usize {
        let rem = total.saturating_sub(hl);
        if crate::refcodec::varint_len(rem as u32) + 1 == hl {
            return rem;
        }
    }
    total
}

pub fn check_c12(ix: &Ix<'_>, v: &mut Vec<Violation>) {
    let role = ix.role();
    let cfg = &ix.out.plan.cfg;
    let v5 = ix.ver == Ver::V5;
    let conn = 0usize;
    // (1) handler overlap
    let count_limit: usize = match ix.out.plan.role {
        crate::world::Role::S3 | crate::world::Role::C3 => cfg.max_receive as usize,
        _ => 0,
    };
    let size_limit: usize = if ix.out.plan.role.is_server() { cfg.max_receive_size } else { 0 };
    // MQTT 5: the Receive Maximum in force is the advertised one - configured, or (server) what the handshake's
    // CONNACK says for this session
    let rm5: u16 = if ix.out.plan.role == crate::world::Role::S5 { cfg.hs_receive_max.unwrap_or(cfg.max_receive) } else { cfg.max_receive };
    let mut running: Vec<(usize, usize, u8)> = Vec::new(); // (gate, packet size, qos)
    let mut last_admitted = 0usize;
    let mut count_exceeded: Option<(usize, u64)> = None;
    for e in &ix.out.hist {
        match &e.ev {
            Ev::GateEnter { gate, conn: 0, kind: GateKind::Publish, desc: GateDesc::Publish(seen), .. } => {
                let size = ix
                    .sent
                    .iter()
                    .find(|s| matches!(&s.pkt, Some(Pkt::Publish(p)) if p.topic == seen.topic))
                    .map_or(0, |s| remaining_len(s.len));
                running.push((*gate, size, seen.qos));
                last_admitted = size;
                if count_limit != 0 && running.len() > count_limit {
                    if count_exceeded.is_none_or(|(n, _)| running.len() > n) {
                        count_exceeded = Some((running.len(), count_exceeded.map_or(e.seq, |c| c.1)));
                    }
                    continue;
                }
                let total: usize = running.iter().map(|r| r.1).sum();
                if size_limit != 0 && total > size_limit + last_admitted {
                    viol(v, "C12", format!("C12/handler-bytes-exceeded/{role}"), format!("{total} packet bytes inside publish handlers, limit {size_limit} plus the last admitted packet of {last_admitted}"), e.seq);
                    return;
                }
                if v5 && rm5 != 0 && seen.qos > 0 {
                    // ids certainly reserved: QoS 1/2 handlers still running, and QoS 2 exchanges whose
                    // PUBREL the peer has not sent yet
                    let q = running.iter().filter(|r| r.2 > 0).count();
                    let awaiting_rel = ix
                        .pub_gates(conn)
                        .filter(|(g, p)| {
                            p.qos == 2
                                && matches!(g.exit, Some((xs, Outcome::Ok)) if xs < e.seq)
                                && p.pid.is_some_and(|pid| !ix.sent.iter().any(|x| x.seq < e.seq && matches!(&x.pkt, Some(Pkt::PubRel(a)) if a.pid == pid)))
                        })
                        .count();
                    if q + awaiting_rel > rm5 as usize {
                        viol(
                            v,
                            "C12",
                            format!("C12/receive-maximum-not-enforced/{role}"),
                            format!("a QoS {} publish reached its handler with {} QoS1/2 handlers running and {awaiting_rel} QoS2 exchanges awaiting PUBREL, advertised Receive Maximum {}", seen.qos, q - 1, rm5),
                            e.seq,
                        );
                        return;
                    }
                }
            }
            Ev::GateExit { gate, .. } | Ev::GateDropped { gate } => running.retain(|r| r.0 != *gate),
            _ => {}
        }
    }
    if let Some((n, sq)) = count_exceeded {
        viol(v, "C12", format!("C12/handler-count-exceeded/{role}/limit{count_limit}"), format!("{n} publish handlers executing at once (max_receive {count_limit})"), sq);
        return;
    }
    // (2) v5 Receive Maximum: a peer within the limit is never refused, one beyond it gets 0x93
    if v5 && rm5 != 0 {
        let rm = u32::from(rm5);
        let mut w = 0u32;
        let mut a = 0u32;
        let mut exceeded_at: Option<u64> = None;
        for e in &ix.out.hist {
            match &e.ev {
                Ev::PeerSend { conn: 0, pkt: Some(Pkt::Publish(p)), corrupt: None, .. } if p.qos > 0 => {
                    if w - a.min(w) >= rm && exceeded_at.is_none() {
                        exceeded_at = Some(e.seq);
                    }
                    w += 1;
                }
                Ev::EpPacket { conn: 0, pkt, .. } => match pkt {
                    Pkt::PubAck(_) | Pkt::PubComp(_) => a += 1,
                    Pkt::PubRec(x) if x.code >= 0x80 => a += 1,
                    _ => {}
                },
                _ => {}
            }
        }
        let got_93 = ix.eps.iter().find(|e| matches!(&e.pkt, Pkt::Disconnect(d) if d.code == 0x93));
        let stop_rm = ix.stops.iter().find(|s| matches!(&s.2, StopClass::Protocol(m) if m.contains("Pub_3_3_4_7") || m.contains("Pub_3_3_4_9")));
        match exceeded_at {
            None => {
                if let Some(e) = got_93 {
                    viol(v, "C12", format!("C12/refused-within-receive-maximum/{role}"), format!("peer never had more than {} unacknowledged QoS1/2 publishes (Receive Maximum {rm}) but was disconnected with 0x93", rm.saturating_sub(1).max(0)), e.seq);
                } else if let Some(s) = stop_rm {
                    viol(v, "C12", format!("C12/refused-within-receive-maximum/{role}"), "peer stayed within Receive Maximum but the connection was stopped for exceeding it".into(), s.0);
                }
            }
            Some(_) => {
                // whether the endpoint's own count was exceeded too depends on where its handlers were:
                // decided by the handler-entry check above
            }
        }
    }
    // (3') reading resumes when handlers finish: at the quiescence of the scripted part (some handlers
    // still held) the endpoint must not sit on a delivered publish while it is strictly below both limits.
    // Judged only when nothing else can hold the reader back: every running handler has read its whole
    // payload, no protocol handler is running, the connection is up, no fault was injected.
    if let Some(settle) = ix.settle_seq
        && matches!(ix.out.plan.role, crate::world::Role::S3)
        && !ix.out.budget_hit
        && ix.out.panic.is_none()
        && ix.fault("fin") + ix.fault("rst") + ix.fault("wr_err") == 0
        && !ix.stops.iter().any(|s| s.0 <= settle)
        && !ix.conn_done.iter().any(|c| c.0 <= settle)
        && !ix.ep_closed.iter().any(|c| c.0 <= settle)
    {
        let size_of = |topic: &str| ix.sent.iter().find(|s| matches!(&s.pkt, Some(Pkt::Publish(p)) if p.topic == topic)).map_or(0, |s| remaining_len(s.len));
        let running_at: Vec<&G> = ix.gates.iter().filter(|g| g.conn == conn && g.enter < settle && g.exit.as_ref().is_none_or(|x| x.0 > settle) && g.dropped.is_none_or(|d| d > settle)).collect();
        let pubs_running: Vec<&&G> = running_at.iter().filter(|g| g.kind == GateKind::Publish).collect();
        let quiet = running_at.iter().all(|g| g.kind == GateKind::Publish)
            && pubs_running.iter().all(|g| match (&g.desc, &g.payload_end) {
                (GateDesc::Publish(p), Some((total, _digest, None))) => *total == p.declared_len,
                _ => false,
            });
        let bytes: usize = pubs_running.iter().map(|g| if let GateDesc::Publish(p) = &g.desc { size_of(&p.topic) } else { 0 }).sum();
        let below_count = count_limit == 0 || pubs_running.len() < count_limit;
        let below_size = size_limit == 0 || bytes < size_limit;
        if quiet && below_count && below_size {
            for s in ix.sent.iter().filter(|s| s.conn == conn && !s.corrupt && s.delivered.is_some_and(|d| d < settle)) {
                let Some(Pkt::Publish(p)) = &s.pkt else { continue };
                if !ix.pub_gates(conn).any(|(g, seen)| seen.topic == p.topic && g.enter < settle) {
                    viol(
                        v,
                        "C12",
                        format!("C12/reading-not-resumed/{role}"),
                        format!("PUBLISH {:?} was delivered at step {:?} and never read although only {} handlers holding {bytes} packet bytes are running (max_receive {count_limit}, max_receive_size {size_limit}) and everything had gone quiet", p.topic, s.delivered, pubs_running.len()),
                        settle,
                    );
                    // (the same fact read as C16: a well-formed sequence after which the endpoint stops making progress)
                    viol(
                        v,
                        "C16",
                        format!("C16/stopped-making-progress/{role}/delivered-publish-never-read"),
                        format!("PUBLISH {:?} was delivered at step {:?} and never read although only {} handlers holding {bytes} packet bytes are running (max_receive {count_limit}, max_receive_size {size_limit}) and everything had gone quiet", p.topic, s.delivered, pubs_running.len()),
                        settle,
                    );
                    return;
                }
            }
        }
    }
    // (3) the limits never wedge the connection: once handlers complete, everything the peer sent is
    // handled (including the remaining chunks of a payload streamed while the limit was reached)
    let refused_or_stopped = ix.stops.iter().any(|s| s.1 == conn) || ix.conn_ended(conn);
    if ix.healthy_settled(conn) && !refused_or_stopped {
        for s in ix.sent.iter().filter(|s| s.conn == conn && !s.corrupt && s.delivered.is_some()) {
            let Some(Pkt::Publish(p)) = &s.pkt else { continue };
            match ix.pub_gates(conn).find(|(_, seen)| seen.topic == p.topic) {
                None => {
                    viol(v, "C12", format!("C12/wedged/{role}/not-handled"), format!("PUBLISH {:?} was delivered, all handlers completed, but it never reached a handler", p.topic), ix.last_seq);
                    return;
                }
                Some((g, _)) => {
                    if g.exit.is_none() {
                        viol(v, "C12", format!("C12/wedged/{role}/handler-stuck"), format!("handler of PUBLISH {:?} ({} payload bytes) never completed although its gate was opened and the whole payload was delivered", p.topic, p.payload.len()), ix.last_seq);
                        return;
                    }
                }
            }
        }
    }
}


// ------------------------------------------------------------------------------------------
// C07: however a connection ends, it is torn down completely and exactly once

pub fn check_c07(ix: &Ix<'_>, v: &mut Vec<Violation>) {
    let role = ix.role();
    let out = ix.out;
    let conn = 0usize;
    if let Some(p) = &out.panic {
        let loc = p.rsplit(" @ ").next().unwrap_or("?");
        viol(v, "C07", format!("C07/panic/{role}/{loc}"), format!("panic: {p}"), ix.last_seq);
        return;
    }
    if out.budget_hit || out.setup_error.is_some() {
        return;
    }
    if !ix.conn_ended(conn) {
        return;
    }
    let session = ix.sessions.iter().find(|s| s.1 == conn).map(|s| s.0);
    let stop = ix.stops.iter().find(|s| s.1 == conn);
    // what ended the connection, as far as the history shows
    let end_seq = stop
        .map(|s| s.0)
        .into_iter()
        .chain(ix.conn_done.iter().filter(|c| c.1 == conn).map(|c| c.0))
        .chain(ix.ep_closed.iter().filter(|c| c.1 == conn).map(|c| c.0))
        .min()
        .unwrap_or(ix.last_seq);

    // (A) exactly one Stop once the connection's services exist (more than one: monitor `stop-twice`)
    if session.is_some() && stop.is_none() {
        viol(v, "C07", format!("C07/no-stop/{role}"), "the connection ended after its services were created but the control service never received Stop".into(), ix.last_seq);
    }
    // (B) the reason class matches something that happened before the notification
    if let Some((sq, _, class)) = stop {
        let peer_gone_cause = ix.peer_close.iter().any(|c| c.1 == conn && c.0 <= *sq)
            || out.hist.iter().any(|e| e.seq <= *sq && matches!(e.ev, Ev::Fault { kind: "wr_err", .. }))
            || ix.sent.iter().any(|s| s.conn == conn && s.seq <= *sq && matches!(s.pkt, Some(Pkt::Disconnect(_))))
            || ix.ops.iter().any(|o| o.start <= *sq && (o.brief.starts_with("Close") || o.brief.starts_with("ForceClose")))
            || ix.eps.iter().any(|e| e.conn == conn && e.seq <= *sq && matches!(e.pkt, Pkt::Disconnect(_)));
        let app_err_cause = out.hist.iter().any(|e| e.seq <= *sq && matches!(e.ev, Ev::Fault { kind: "svc_ready_err", .. }))
            || ix.gates.iter().any(|g| {
            g.conn == conn
                && g.kind != GateKind::Control
                && match &g.exit {
                    Some((xs, Outcome::Err)) => xs <= sq,
                    Some((xs, Outcome::Neg(_))) => xs <= sq && g.kind == GateKind::Publish,
                    Some((xs, Outcome::Disconnect(_))) => xs <= sq,
                    _ => false,
                }
        });
        // protocol-error causes visible in the history
        // (the decoder may reject a frame before its last byte arrived)
        let corrupt_delivered = ix.sent.iter().any(|s| s.conn == conn && s.corrupt && s.seq <= *sq);
        let keepalive_cfg = if out.plan.role.is_server() { out.plan.peer.connect.keep_alive < 30 } else { out.plan.cfg.client_keepalive_s != 0 };
        let streaming_op = out.plan.senders.iter().flatten().any(|o| matches!(o, crate::plan::AppOp::StreamQ0 { .. } | crate::plan::AppOp::StreamQ1 { .. }));
        let violation_sent = {
            let pubs: Vec<&Sent> = ix.sent.iter().filter(|s| s.conn == conn && s.seq <= *sq && matches!(s.pkt, Some(Pkt::Publish(_)))).collect();
            let second_connect = ix.sent.iter().filter(|s| s.conn == conn && s.seq <= *sq && matches!(s.pkt, Some(Pkt::Connect(_)))).count() > usize::from(out.plan.role.is_server());
            let alias = pubs.iter().any(|s| matches!(&s.pkt, Some(Pkt::Publish(p)) if p.topic.is_empty()));
            let dup_id = pubs.iter().enumerate().any(|(i, a)| {
                pubs[..i].iter().any(|b| matches!((&a.pkt, &b.pkt), (Some(Pkt::Publish(x)), Some(Pkt::Publish(y))) if x.pid.is_some() && x.pid == y.pid))
            });
            // MQTT 3.1.1: a server never sends DISCONNECT
            let disconnect_to_v3_client = out.plan.role == crate::world::Role::C3 && ix.sent.iter().any(|s| s.conn == conn && s.seq <= *sq && matches!(s.pkt, Some(Pkt::Disconnect(_))));
            // nothing may follow the peer's own DISCONNECT
            let after_disconnect = ix.sent.iter().find(|s| s.conn == conn && matches!(s.pkt, Some(Pkt::Disconnect(_)))).is_some_and(|d| ix.sent.iter().any(|s| s.conn == conn && s.seq > d.seq && s.seq <= *sq));
            // violations injected on purpose by the generator (C15 family)
            let tagged = out.plan.tags.iter().any(|t| {
                ["too-large", "receive-maximum", "qos-not-supported", "retain-not-supported", "sub-ids-not-supported", "unknown-alias", "inject:violation", "bad-expiry"].iter().any(|k| t.contains(k))
            });
            second_connect || alias || dup_id || disconnect_to_v3_client || after_disconnect || tagged
        };
        let cause_names = format!(
            "{}{}{}{}{}{}",
            if peer_gone_cause { "P" } else { "" },
            if app_err_cause { "A" } else { "" },
            if corrupt_delivered { "D" } else { "" },
            if violation_sent { "V" } else { "" },
            if keepalive_cfg { "K" } else { "" },
            if streaming_op { "S" } else { "" }
        );
        // Accepted consequences (the cause is real, the class names what the library met next):
        //  - a failing handler makes the library close the io itself: PeerGone(None) may win the race;
        //  - payload chunks that arrive after the payload receiver was dropped (failed handler, refused
        //    publish, local close, peer gone) are reported as Decode(UnexpectedPayload);
        //  - acknowledgements that arrive after a local close / write failure / failed handler find the queues cleared
        //    and are reported as protocol violations (pinned by v3/v5 dispatcher unit tests).
        let ok = match class {
            StopClass::PeerGone(_) => peer_gone_cause || app_err_cause,
            StopClass::AppError => app_err_cause,
            StopClass::Protocol(m) => {
                if m.contains("Decode(UnexpectedPayload)") {
                    corrupt_delivered || violation_sent || app_err_cause || peer_gone_cause
                } else if m.contains("Decode(MaxSizeExceeded") {
                    violation_sent || corrupt_delivered
                } else if m.contains("Decode(") {
                    corrupt_delivered
                } else if m.contains("KeepAlive") {
                    keepalive_cfg
                } else if m.contains("Encode(") {
                    streaming_op
                } else if (peer_gone_cause || app_err_cause) && (m.contains("while there are no unacknowledged") || m.contains("does not match expected next value")) {
                    true
                } else {
                    violation_sent || corrupt_delivered
                }
            }
        };
        if !ok {
            let cls = match class {
                StopClass::PeerGone(_) => "peer-gone".to_string(),
                StopClass::AppError => "app-error".to_string(),
                StopClass::Protocol(m) => format!("protocol-{}", m.split(['(', ' ', '{']).next().unwrap_or("")),
            };
            viol(
                v,
                "C07",
                format!("C07/stop-reason/{role}/{cls}/causes-{}", if cause_names.is_empty() { "none" } else { &cause_names }),
                format!("Stop({class:?}) does not name any cause present in the history (P=peer gone/local close, A=handler failed, D=undecodable input, V=protocol violation, K=keep-alive configured, S=streamed send)"),
                *sq,
            );
        }
    }
    // (A') each cause ends the connection by itself: it is over before the closing FIN of the run
    if let (Some(settle), Some(fin)) = (ix.settle_seq, ix.fin_seq) {
        let ended_before_fin = ix
            .stops
            .iter()
            .filter(|s| s.1 == conn)
            .map(|s| s.0)
            .chain(ix.conn_done.iter().filter(|c| c.1 == conn).map(|c| c.0))
            .any(|s| s < fin);
        let ended_before_settle = ix
            .stops
            .iter()
            .filter(|s| s.1 == conn)
            .map(|s| s.0)
            .chain(ix.conn_done.iter().filter(|c| c.1 == conn).map(|c| c.0))
            .any(|s| s < settle);
        if !ended_before_settle {
            // a failing handler ends the connection at once, whatever other handlers are doing
            // (nothing else is needed to process its error: the scripted part ran to quiescence)
            if let Some(g) = ix.gates.iter().find(|g| g.conn == conn && matches!(g.kind, GateKind::Publish | GateKind::Proto) && matches!(&g.exit, Some((xs, Outcome::Err)) if *xs < settle)) {
                viol(
                    v,
                    "C07",
                    format!("C07/cause-did-not-end-connection/{role}/failed-handler-before-quiescence"),
                    format!("handler gate {} failed at step {} but the connection was still up when everything had gone quiet (other handlers still parked)", g.id, g.exit.as_ref().map_or(0, |x| x.0)),
                    settle,
                );
            }
        }
        if !ended_before_fin {
            let failed_handler = ix.gates.iter().find(|g| {
                g.conn == conn
                    && matches!(g.kind, GateKind::Publish | GateKind::Proto)
                    && match &g.exit {
                        Some((xs, Outcome::Err)) => *xs < settle,
                        Some((xs, Outcome::Neg(_))) => *xs < settle && g.kind == GateKind::Publish && (ix.ver == Ver::V3 || matches!(&g.desc, GateDesc::Publish(p) if p.qos == 0)),
                        _ => false,
                    }
            });
            let corrupt = ix.sent.iter().find(|s| s.conn == conn && s.corrupt && s.delivered.is_some_and(|d| d < settle));
            let closed_locally = ix.ops.iter().find(|o| o.start < settle && (o.brief.starts_with("Close") || o.brief.starts_with("ForceClose")));
            let cause = if let Some(g) = failed_handler {
                Some(("failed-handler", format!("handler gate {} failed at step {}", g.id, g.exit.as_ref().map_or(0, |x| x.0))))
            } else if let Some(c) = corrupt {
                Some(("undecodable-input", format!("undecodable input delivered at step {:?}", c.delivered)))
            } else {
                closed_locally.map(|o| ("local-close", format!("{} at step {}", o.brief, o.start)))
            };
            if let Some((k, what)) = cause {
                viol(v, "C07", format!("C07/cause-did-not-end-connection/{role}/{k}"), format!("{what}, yet the connection was still up when the run's closing FIN was sent"), fin);
            }
        }
    }
    // (C) the connection task completes
    if !ix.conn_done.iter().any(|c| c.1 == conn) {
        viol(v, "C07", format!("C07/task-not-completed/{role}"), "the connection ended but the connection task never completed".into(), ix.last_seq);
    }
    let stop_handled = stop.map(|s| {
        ix.gates
            .iter()
            .find(|g| g.conn == conn && g.kind == GateKind::Control)
            .map_or(s.0, |g| g.exit.as_ref().map_or(u64::MAX, |x| x.0))
    });
    // (D) every started send / readiness future resolved; the ones that were pending when the
    // connection ended resolve with an error
    let end_seq = stop_handled.unwrap_or(end_seq).max(end_seq);
    for o in &ix.ops {
        if o.brief.starts_with("Close") || o.brief.starts_with("ForceClose") {
            continue;
        }
        let kind = o.brief.split([' ', '{', '(']).next().unwrap_or("?");
        match &o.done {
            None => {
                viol(v, "C07", format!("C07/op-left-waiting/{role}/{kind}"), format!("sender {} op {} ({}) started at step {} never resolved after the connection ended", o.sender, o.op, o.brief, o.start), ix.last_seq);
            }
            Some((dq, OpResult::Ok(_))) if o.brief == "Ready" => {
                // a readiness future that was pending when the connection ended reports "not ready": once the
                // Stop notification has been handled nothing can make the sink ready again (a wake-up the
                // waiter had already been given does not count: the connection is over when it looks)
                if let Some(h) = stop_handled
                    && h != u64::MAX
                    && *dq > h
                    && o.start < h
                    && *dq > o.start
                {
                    viol(v, "C07", format!("C07/ready-true-after-end/{role}"), format!("sender {} op {} (ready()) was pending when the connection ended (Stop handled at step {h}) and resolved `true` at step {dq}", o.sender, o.op), *dq);
                }
            }
            Some((dq, OpResult::Err(e))) => {
                // a future that was pending (parked or awaiting its ack) across the end of the connection;
                // calls that fail on the spot may report whatever made them fail
                let pending = *dq > o.start && o.start < end_seq;
                if pending && *dq >= end_seq && !e.contains("Disconnected") && !e.contains("Cancelled") && e != "ready:false" {
                    viol(v, "C07", format!("C07/op-wrong-error/{role}/{kind}"), format!("sender {} op {} ({}) resolved with {e} after the connection ended", o.sender, o.op, o.brief), *dq);
                }
            }
            _ => {}
        }
    }
    // (E)/(G) handlers: a payload reader that was waiting observes an error; nothing is left waiting;
    // (F) handlers are cancelled only after the Stop notification has been handled
    for g in ix.gates.iter().filter(|g| g.conn == conn && matches!(g.kind, GateKind::Publish | GateKind::Proto)) {
        let what = match &g.desc {
            GateDesc::Publish(p) => format!("publish handler of {:?}", p.topic),
            GateDesc::Proto { brief, .. } => format!("protocol handler of {brief}"),
            _ => "handler".into(),
        };
        if g.exit.is_none() && g.dropped.is_none() {
            let why = if g.payload_wait.is_some() { "payload-read" } else { "other" };
            viol(v, "C07", format!("C07/handler-left-waiting/{role}/{why}"), format!("{what} neither completed nor was cancelled after the connection ended (waiting on: {why})"), ix.last_seq);
            continue;
        }
        if let Some(d) = g.dropped {
            if g.exit.is_none() && g.payload_wait.is_some() {
                // did the dispatcher get polled again between the Stop notification and the cancellation?
                // (the notification completing within the very poll that delivered it leaves the handler
                // that runs in place no chance to be polled)
                let ctl_pending = ix.gates.iter().any(|c| c.conn == conn && c.kind == GateKind::Control && c.exit.as_ref().is_none_or(|x| x.0 > c.enter));
                // the connection dispatcher polls its oldest call in place and spawns the ones that arrive while
                // it is busy: a spawned handler is a task of its own and is polled again once the payload has
                // been failed - only the in-place one can miss it (the recorded finding)
                let mut inline_end: u64 = 0;
                let mut spawned = false;
                for o in ix.gates.iter().filter(|o| o.conn == conn && matches!(o.kind, GateKind::Publish | GateKind::Proto)) {
                    let is_inline = o.enter >= inline_end;
                    if is_inline {
                        inline_end = o.exit.as_ref().map(|x| x.0).or(o.dropped).unwrap_or(u64::MAX);
                    }
                    if o.id == g.id {
                        spawned = !is_inline;
                        break;
                    }
                }
                let how = match stop {
                    _ if spawned => "spawned-handler",
                    Some(_) if !ctl_pending => "stop-handled-within-one-poll",
                    Some(_) => "stop-handled-later",
                    None => "no-stop",
                };
                viol(v, "C07", format!("C07/reader-not-notified/{role}/{how}"), format!("{what} was waiting for payload data when the connection ended and was cancelled without observing an error"), d);
            }
            if let Some(h) = stop_handled
                && g.exit.is_none()
                && d < h
            {
                viol(v, "C07", format!("C07/handler-cancelled-before-stop/{role}"), format!("{what} was cancelled at step {d}, before the Stop notification had been handled (step {})", if h == u64::MAX { "never".to_string() } else { h.to_string() }), d);
            }
        }
    }
}


// ------------------------------------------------------------------------------------------
// C15: MQTT 5 DISCONNECT - at most once, never after the peer's, names the cause
// (at most once / nothing after it: monitors, on every run of every family)

pub fn check_c15(ix: &Ix<'_>, v: &mut Vec<Violation>) {
    if ix.ver != Ver::V5 {
        return;
    }
    let role = ix.role();
    let out = ix.out;
    let conn = 0usize;
    if out.budget_hit || out.panic.is_some() {
        return;
    }
    let discs: Vec<(&EpP, &crate::refcodec::Disconnect)> = ix
        .eps
        .iter()
        .filter(|e| e.conn == conn)
        .filter_map(|e| match &e.pkt {
            Pkt::Disconnect(d) => Some((e, d)),
            _ => None,
        })
        .collect();
    let stop = ix.stops.iter().find(|s| s.1 == conn);
    let close_ops: Vec<&OpRec> = ix.ops.iter().filter(|o| o.brief.contains("Close")).collect();
    // application-supplied packets: close_with_reason, protocol handler asking to disconnect with a code,
    // control service answering Stop with its own DISCONNECT
    let app_supplied = close_ops.iter().any(|o| o.brief.starts_with("CloseReason"))
        || ix.gates.iter().any(|g| g.conn == conn && matches!(g.exit, Some((_, Outcome::Disconnect(_) | Outcome::OwnDisconnect(_)))));

    // (2) nothing after the peer's DISCONNECT has been received
    let peer_disc_gate = ix.gates.iter().find(|g| g.conn == conn && matches!(&g.desc, GateDesc::Proto { brief, .. } if brief.starts_with("DISCONNECT")));
    if let Some(g) = peer_disc_gate {
        let local_before = close_ops.iter().any(|o| o.start <= g.enter)
            || stop.is_some_and(|s| s.0 <= g.enter)
            || ix.gates.iter().any(|x| x.conn == conn && x.id != g.id && matches!(x.exit, Some((xs, Outcome::Disconnect(_) | Outcome::Err)) if xs <= g.enter));
        let bad_expiry = out.plan.tags.iter().any(|t| t == "inject:peer-disconnect-bad-expiry");
        if !local_before {
            for (e, d) in &discs {
                if e.seq > g.enter && !(bad_expiry && d.code == 0x82) {
                    viol(v, "C15", format!("C15/disconnect-after-peer-disconnect/{role}"), format!("DISCONNECT 0x{:02x} written after the peer's DISCONNECT had been received (step {})", d.code, g.enter), e.seq);
                }
            }
        }
    }

    // (4)+(5) the endpoint ends the connection because of an error and the application supplies no packet
    if let Some((sq, _, class)) = stop
        && !app_supplied
        && close_ops.is_empty()
        && peer_disc_gate.is_none_or(|g| g.enter > *sq)
        && !ix.sent.iter().any(|s| s.conn == conn && s.seq < *sq && matches!(s.pkt, Some(Pkt::Disconnect(_))))
    {
        let expected: Option<(u8, &str)> = match class {
            StopClass::Protocol(m) => {
                if m.contains("KeepAliveTimeout") {
                    Some((0x8d, "keep-alive"))
                } else if m.contains("MaxSizeExceeded") {
                    Some((0x95, "packet-too-large"))
                } else if m.contains("Pub_3_3_4_7") || m.contains("Pub_3_3_4_9") {
                    Some((0x93, "receive-maximum"))
                } else if m.contains("Connack_3_2_2_11") {
                    Some((0x9b, "qos-not-supported"))
                } else if m.contains("Connack_3_2_2_14") {
                    Some((0x9a, "retain-not-supported"))
                } else if m.contains("Connack_3_2_2_3_12") {
                    Some((0xa1, "subscription-ids-not-supported"))
                } else if m.contains("TopicAliasInvalid") || m.contains("nknown topic alias") {
                    Some((0x94, "unknown-topic-alias"))
                } else {
                    None
                }
            }
            _ => None,
        };
        let is_error = matches!(class, StopClass::Protocol(_) | StopClass::AppError);
        for (e, d) in &discs {
            if is_error && d.code == 0x00 {
                viol(v, "C15", format!("C15/normal-disconnect-on-error/{role}"), format!("the connection ended with {class:?} and the application supplied no packet, yet DISCONNECT claims normal disconnection"), e.seq);
            }
            if let Some((code, what)) = expected
                && d.code != code
            {
                viol(v, "C15", format!("C15/wrong-reason-code/{role}/{what}"), format!("cause {what}: DISCONNECT carries 0x{:02x}, MQTT 5 assigns 0x{code:02x}", d.code), e.seq);
            }
        }
        // a single injected cause with a dedicated code must be recognised as that cause
        let codes: Vec<(String, u8)> = out
            .plan
            .tags
            .iter()
            .filter_map(|t| {
                let mut it = t.rsplitn(2, ":0x");
                let code = it.next().and_then(|c| u8::from_str_radix(c, 16).ok())?;
                Some((it.next()?.trim_start_matches("inject:").to_string(), code))
            })
            .collect();
        if out.plan.tags.len() == 1
            && let Some((what, code)) = codes.first()
            && matches!(class, StopClass::Protocol(_))
        {
            for (e, d) in &discs {
                if d.code != *code {
                    viol(v, "C15", format!("C15/wrong-reason-code/{role}/{what}"), format!("only {what} was injected: DISCONNECT carries 0x{:02x}, MQTT 5 assigns 0x{code:02x} ({class:?})", d.code), e.seq);
                }
            }
        }
    }
}


// ------------------------------------------------------------------------------------------
// C17: MQTT 5 topic aliases always resolve to the right topic

fn c17_route(topic: &str, router: bool, client: bool) -> &'static str {
    if !router {
        return if client { "control" } else { "default" };
    }
    if topic == "a" {
        "res:a"
    } else if topic.starts_with("b/") && topic.matches('/').count() == 1 {
        "res:b"
    } else if topic.starts_with("t/") && topic.matches('/').count() == 1 {
        "res:t"
    } else if client {
        "control"
    } else {
        "default"
    }
}

pub fn check_c17(ix: &Ix<'_>, v: &mut Vec<Violation>) {
    let role = ix.role();
    let out = ix.out;
    if out.budget_hit || out.panic.is_some() || out.plan.ending == Ending::Stop || ix.settle_seq.is_none() {
        return;
    }
    let max_alias: u16 = out.plan.tags.iter().find_map(|t| t.strip_prefix("max-alias:").and_then(|x| x.parse().ok())).unwrap_or(0);
    let router = out.plan.cfg.use_router;
    let client = !out.plan.role.is_server();
    for conn in 0..out.peers.len() {
        // reference model: alias table of this connection only
        let mut table: BTreeMap<u16, String> = BTreeMap::new();
        let mut gates = ix.pub_gates(conn);
        let stop = ix.stops.iter().find(|s| s.1 == conn);
        let ended = ix.conn_ended(conn);
        for s in ix.sent.iter().filter(|s| s.conn == conn && !s.corrupt) {
            let Some(Pkt::Publish(p)) = &s.pkt else { continue };
            if s.delivered.is_none() {
                break;
            }
            let alias = crate::refcodec::prop_u16(&p.props, 35);
            let expected: Result<String, &'static str> = match (p.topic.is_empty(), alias) {
                (_, Some(a)) if a == 0 || a > max_alias => Err("alias-beyond-maximum"),
                (false, Some(a)) => {
                    table.insert(a, p.topic.clone());
                    Ok(p.topic.clone())
                }
                (true, Some(a)) => table.get(&a).cloned().ok_or("alias-never-bound"),
                (false, None) => Ok(p.topic.clone()),
                (true, None) => Err("empty-topic-without-alias"),
            };
            match expected {
                Ok(topic) => {
                    let Some((g, seen)) = gates.next() else {
                        if !ended {
                            viol(v, "C17", format!("C17/not-delivered/{role}"), format!("conn {conn}: PUBLISH (topic {:?}, alias {alias:?}) resolves to {topic:?} but no handler was invoked", p.topic), ix.last_seq);
                        } else if alias.is_some()
                            && (matches!(stop, Some((_, _, StopClass::Protocol(_))))
                                || ix.eps.iter().any(|e| e.conn == conn && e.seq > s.seq && matches!(&e.pkt, Pkt::Disconnect(d) if d.code >= 0x80)))
                        {
                            // every publish before this one was valid and handled: nothing but this publish can
                            // have been taken for an alias violation
                            viol(
                                v,
                                "C17",
                                format!("C17/valid-alias-refused/{role}"),
                                format!("conn {conn}: PUBLISH (topic {:?}, alias {alias:?}) resolves to {topic:?} by the bindings made on this connection, yet the connection was ended with a protocol error (nothing else in this scenario can be one)", p.topic),
                                stop.map_or(ix.last_seq, |x| x.0),
                            );
                            return;
                        }
                        break;
                    };
                    if seen.topic != topic {
                        viol(
                            v,
                            "C17",
                            format!("C17/wrong-topic/{role}/{}", if router { "router" } else { "plain" }),
                            format!("conn {conn}: PUBLISH (topic {:?}, alias {alias:?}) must resolve to {topic:?}, the handler saw {:?}", p.topic, seen.topic),
                            g.enter,
                        );
                        return;
                    }
                    let want_route = c17_route(&topic, router, client);
                    if seen.route != want_route {
                        viol(
                            v,
                            "C17",
                            format!("C17/wrong-route/{role}/{}-instead-of-{}", seen.route, want_route),
                            format!("conn {conn}: PUBLISH resolved to {topic:?} (sent topic {:?}, alias {alias:?}) was handled by {:?}, the resolved topic routes to {want_route:?}", p.topic, seen.route),
                            g.enter,
                        );
                        return;
                    }
                    if let Some((total, digest, None)) = &g.payload_end
                        && (*total != p.payload.len() || *digest != digest_bytes(&p.payload))
                    {
                        viol(v, "C17", format!("C17/wrong-publish-delivered/{role}"), format!("conn {conn}: handler of {topic:?} read a payload that is not the one of this PUBLISH (order of deliveries broken)"), g.enter);
                        return;
                    }
                }
                Err(why) => {
                    // must not reach a handler; the connection ends with a protocol error
                    if let Some((g, seen)) = gates.next() {
                        viol(v, "C17", format!("C17/invalid-alias-delivered/{role}/{why}"), format!("conn {conn}: PUBLISH with {why} (alias {alias:?}) reached a handler as {:?}", seen.topic), g.enter);
                        return;
                    }
                    match stop {
                        Some((_, _, StopClass::Protocol(_))) => {}
                        Some((sq, _, cls)) => viol(v, "C17", format!("C17/invalid-alias-wrong-stop/{role}/{why}"), format!("conn {conn}: {why}: connection ended with {cls:?}, not a protocol error"), *sq),
                        // (client role with the router: the library's own control service is in use and the
                        // Stop notification is not visible; the DISCONNECT on the wire shows the protocol error)
                        None if ended && ix.eps.iter().any(|e| e.conn == conn && matches!(&e.pkt, Pkt::Disconnect(d) if d.code >= 0x80)) => {}
                        None => viol(v, "C17", format!("C17/invalid-alias-accepted/{role}/{why}"), format!("conn {conn}: PUBLISH with {why} (alias {alias:?}) neither reached a handler nor ended the connection"), ix.last_seq),
                    }
                    break;
                }
            }
        }
    }
}


// ------------------------------------------------------------------------------------------
// C20: idle and too-slow peers are timed out, live peers are not (1 s grid, 1 s slack)

pub fn check_c20(ix: &Ix<'_>, v: &mut Vec<Violation>) {
    let role = ix.role();
    let out = ix.out;
    if out.budget_hit || out.panic.is_some() {
        return;
    }
    let conn = 0usize;
    // (the history is ordered by sequence number: binary search - long histories are judged too)
    let t_of = |seq: u64| -> u64 { out.hist.get(out.hist.partition_point(|e| e.seq < seq)).map_or(0, |e| e.t_ms) };
    let end_ms = out.hist.iter().filter(|e| ix.settle_seq.is_none_or(|s| e.seq <= s)).map(|e| e.t_ms).max().unwrap_or(0);
    let mode = out.plan.tags.iter().find_map(|t| t.strip_prefix("mode:")).unwrap_or("");
    let stop = ix.stops.iter().find(|s| s.1 == conn);
    let stop_ms = stop.map(|s| t_of(s.0));
    let ka_stop = stop.filter(|s| matches!(&s.2, StopClass::Protocol(m) if m.contains("KeepAliveTimeout")));
    let rd_stop = stop.filter(|s| matches!(&s.2, StopClass::Protocol(m) if m.contains("ReadTimeout")));
    let session_ms = ix.sessions.iter().find(|s| s.1 == conn).map(|s| t_of(s.0));
    // arrival times of complete packets (delivery of their last byte), after the handshake
    let mut arrivals: Vec<u64> = ix
        .sent
        .iter()
        .filter(|s| s.conn == conn && s.pkt.is_some() && !matches!(s.pkt, Some(Pkt::Connect(_) | Pkt::ConnAck(_))))
        .filter_map(|s| s.delivered.map(t_of))
        .collect();
    if let Some(t0) = session_ms {
        arrivals.push(t0);
    }
    arrivals.sort_unstable();

    match mode {
        "keepalive" => {
            let ka = u64::from(out.plan.peer.connect.keep_alive);
            let t_eff: Option<u64> = match out.plan.cfg.hs_keepalive {
                Some(k) => Some(u64::from(k) * 1000),
                None if ka != 0 => Some((ka + ka / 2) * 1000),
                None => None,
            };
            if let Some((sq, _, _)) = ka_stop {
                let ts = t_of(*sq);
                let last = arrivals.iter().copied().filter(|a| *a <= ts).max().unwrap_or(0);
                match t_eff {
                    None => viol(v, "C20", format!("C20/keepalive-timeout-while-disabled/{role}"), format!("keep-alive 0 and no server override, yet the connection was ended by a keep-alive timeout at {ts} ms"), *sq),
                    Some(t) => {
                        if ts - last < t {
                            viol(v, "C20", format!("C20/live-peer-timed-out/{role}"), format!("keep-alive timeout at {ts} ms, but a complete packet had arrived at {last} ms (timeout in force {t} ms)"), *sq);
                            // the same fact read as C19: the keep-alive in force is not the negotiated one
                            viol(v, "C19", format!("C19/keepalive-in-force/{role}/shorter"), format!("negotiated keep-alive timeout {t} ms (1.5 x the client's value, or the handshake's override), but the connection was timed out {} ms after the last complete packet", ts - last), *sq);
                        }
                    }
                }
                if ix.ver == Ver::V5 && !ix.eps.iter().any(|e| e.conn == conn && matches!(&e.pkt, Pkt::Disconnect(d) if d.code == 0x8d)) && ix.settle_seq.is_some() {
                    viol(v, "C20", format!("C20/keepalive-timeout-without-0x8d/{role}"), "keep-alive timeout on an MQTT 5 connection but no DISCONNECT 0x8D was written".into(), *sq);
                }
            }
            if let (Some(t), Some(_)) = (t_eff, session_ms) {
                // every silence longer than the timeout (plus slack) must have ended the connection
                let mut pts = arrivals.clone();
                if out.plan.cfg.frame_read_rate.is_some() {
                    // with a frame read rate configured the first byte of a frame hands the connection's timer
                    // over to the read-rate regime: a fragment that arrives before the keep-alive timer fired
                    // starts a new waiting period (which then ends with a read timeout)
                    pts.extend(ix.sent.iter().filter(|s| s.conn == conn && s.pkt.is_none()).filter_map(|s| s.delivered.map(t_of)));
                    pts.sort_unstable();
                }
                pts.push(end_ms);
                for w in pts.windows(2) {
                    // while a handler is busy the service is not ready, reading is paused and the timers are
                    // stopped on purpose (packets may sit unread in the socket): only judge idle handlers
                    let busy = ix.gates.iter().any(|g| {
                        g.conn == conn
                            && matches!(g.kind, GateKind::Publish | GateKind::Proto)
                            && t_of(g.enter) <= w[0] + t + 2000
                            && g.exit.as_ref().map(|x| t_of(x.0)).or(g.dropped.map(t_of)).is_none_or(|x| x > w[0])
                    });
                    if w[1] - w[0] > t + 2000 && !busy {
                        let ended_in_time = stop_ms.is_some_and(|s| s <= w[0] + t + 2000) || ix.conn_done.iter().any(|c| c.1 == conn && t_of(c.0) <= w[0] + t + 2000);
                        if !ended_in_time {
                            viol(v, "C20", format!("C20/idle-peer-not-timed-out/{role}"), format!("no complete packet between {} ms and {} ms (keep-alive timeout in force {t} ms) and the connection was not ended", w[0], w[1]), ix.last_seq);
                            viol(v, "C19", format!("C19/keepalive-in-force/{role}/longer"), format!("negotiated keep-alive timeout {t} ms (1.5 x the client's value, or the handshake's override), but {} ms of silence did not end the connection", w[1] - w[0]), ix.last_seq);
                        } else if stop_ms.is_some_and(|s| s <= w[0] + t + 2000 && s > w[0]) && ka_stop.is_none() && rd_stop.is_none() {
                            viol(v, "C20", format!("C20/idle-timeout-wrong-reason/{role}"), format!("idle connection was ended with {:?} instead of a keep-alive timeout", stop.map(|s| &s.2)), stop.map_or(0, |s| s.0));
                        }
                        break;
                    }
                }
            }
            // a read timeout needs a frame that is arriving too slowly: with both timers configured, a read
            // timeout on a connection whose delivered bytes all form complete packets is a timer that was
            // armed for nothing (or not handed back to the keep-alive regime)
            if let Some((sq, _, _)) = rd_stop {
                let ts = t_of(*sq);
                let mut open_since: Option<u64> = None;
                let mut pending = false;
                for s in ix.sent.iter().filter(|s| s.conn == conn && !matches!(s.pkt, Some(Pkt::Connect(_)))) {
                    let Some(d) = s.delivered.map(t_of) else { continue };
                    if d > ts {
                        break;
                    }
                    if s.pkt.is_none() {
                        open_since.get_or_insert(d);
                    } else {
                        // (a frame completed within the last second before the timeout still counts as pending:
                        // the timer works on a 1 s grid)
                        pending = open_since.is_some() && d + 1000 >= ts;
                        open_since = None;
                    }
                }
                if open_since.is_none() && !pending {
                    viol(v, "C20", format!("C20/read-timeout-without-partial-frame/{role}"), format!("read timeout at {ts} ms although every byte delivered so far belongs to a complete packet"), *sq);
                }
            }
        }
        "read-rate" => {
            let Some((timeout, max_timeout, rate)) = out.plan.cfg.frame_read_rate else { return };
            let timeout = u64::from(timeout) * 1000;
            if out.plan.tags.iter().any(|t| t == "two-frames") {
                // two trickled frames one after the other: the clauses are judged per frame
                struct Fr {
                    first: u64,
                    first_len: usize,
                    completed: Option<u64>,
                }
                let mut frames: Vec<Fr> = Vec::new();
                let mut open = false;
                for s in ix.sent.iter().filter(|s| s.conn == conn && !matches!(s.pkt, Some(Pkt::Connect(_)))) {
                    let Some(d) = s.delivered.map(t_of) else { continue };
                    if !open {
                        frames.push(Fr { first: d, first_len: s.len, completed: None });
                        open = true;
                    }
                    if s.pkt.is_some() {
                        frames.last_mut().unwrap().completed = Some(d);
                        open = false;
                    }
                }
                if let Some((sq, _, _)) = rd_stop {
                    let ts = t_of(*sq);
                    match frames.iter().find(|f| f.first <= ts && f.completed.is_none_or(|c| c > ts.saturating_sub(1000))) {
                        None => viol(v, "C20", format!("C20/read-timeout-without-partial-frame/{role}"), format!("read timeout at {ts} ms although no partial frame was pending"), *sq),
                        Some(f) => {
                            if f.completed.is_some_and(|c| c + 1000 < f.first + timeout) {
                                viol(v, "C20", format!("C20/fast-frame-timed-out/{role}"), format!("the frame was complete {} ms after its first byte (read timeout {timeout} ms), yet the connection was ended with a read timeout", f.completed.unwrap() - f.first), *sq);
                            }
                            // the first expiry of this frame's timer finds at least its first piece: more than
                            // `rate` bytes in that period extend the timer (unless the maximum is used up)
                            let may_extend = max_timeout == 0 || u64::from(max_timeout) * 1000 > timeout;
                            // (the rate is measured on undecoded bytes: the codec may already have consumed the
                            // fixed header of the frame, up to 5 bytes - hence the margin)
                            if ts < f.first + 2 * timeout && f.first_len as u64 > u64::from(rate) + 8 && may_extend {
                                viol(
                                    v,
                                    "C20",
                                    format!("C20/live-frame-timed-out-at-first-expiry/{role}"),
                                    format!("a frame whose first piece of {} bytes arrived at {} ms (rate {rate} bytes per {timeout} ms) was ended with a read timeout at {ts} ms, before a second period could have elapsed", f.first_len, f.first),
                                    *sq,
                                );
                            }
                        }
                    }
                }
                return;
            }
            // byte arrival times of the (single) trickled frame
            let pieces: Vec<(u64, bool)> = ix.sent.iter().filter(|s| s.conn == conn && !matches!(s.pkt, Some(Pkt::Connect(_)))).filter_map(|s| s.delivered.map(|d| (t_of(d), s.pkt.is_some()))).collect();
            let Some(first) = pieces.first().map(|p| p.0) else { return };
            let completed = pieces.iter().find(|p| p.1).map(|p| p.0);
            let last_byte = pieces.iter().map(|p| p.0).max().unwrap_or(first);
            if let Some((sq, _, _)) = rd_stop {
                let ts = t_of(*sq);
                if completed.is_some_and(|c| c <= ts.saturating_sub(1000)) || ts < first {
                    viol(v, "C20", format!("C20/read-timeout-without-partial-frame/{role}"), format!("read timeout at {ts} ms although no partial frame was pending (frame complete at {completed:?} ms)"), *sq);
                }
                if completed.is_some_and(|c| c + 1000 < first + timeout) {
                    viol(v, "C20", format!("C20/fast-frame-timed-out/{role}"), format!("the frame was complete {} ms after its first byte (read timeout {timeout} ms), yet the connection was ended with a read timeout", completed.unwrap() - first), *sq);
                }
            }
            // a frame that stalls for good must end the connection
            // (timers run on a 1 s wheel: a period lasts up to timeout + 1 s; the period in which the last
            // byte arrived may still be extended once, the following one detects the stall)
            let bound = last_byte + 2 * (timeout + 1000) + 1000;
            if completed.is_none() && end_ms > bound {
                let ended = stop_ms.is_some_and(|s| s <= bound);
                if !ended {
                    // how much of the frame arrived: exactly its fixed header (type byte + remaining length)?
                    let frame: Vec<&Sent> = ix.sent.iter().filter(|s| s.conn == conn && !matches!(s.pkt, Some(Pkt::Connect(_))) && s.delivered.is_some()).collect();
                    let got: usize = frame.iter().map(|s| s.len).sum();
                    let total: usize = out.plan.peer.script.iter().map(|s| s.bytes.len()).sum::<usize>().max(got);
                    // The read timer only runs while undecoded bytes sit in the read buffer. The codecs consume
                    // a complete fixed header, and a complete PUBLISH header (the payload is then streamed),
                    // as soon as they arrive: a peer that stalls right there leaves nothing undecoded behind.
                    let streaming = ix.pub_gates(conn).next().is_some();
                    let what = if got == total - remaining_len(total) || streaming { "/all-delivered-bytes-consumed-by-codec" } else { "" };
                    viol(v, "C20", format!("C20/stalled-frame-not-timed-out/{role}{what}"), format!("a partial frame ({got} of its bytes) received its last byte at {last_byte} ms and nothing since, read timeout {timeout} ms, run ended at {end_ms} ms with the connection up"), ix.last_seq);
                } else if rd_stop.is_none() {
                    viol(v, "C20", format!("C20/stalled-frame-wrong-reason/{role}"), format!("stalled frame: the connection ended with {:?}, not a read timeout", stop.map(|s| &s.2)), stop.map_or(0, |s| s.0));
                }
            }
        }
        "connect-timeout" => {
            let ct = u64::from(out.plan.cfg.connect_timeout_s) * 1000;
            let connect_done = ix.sent.iter().find(|s| s.conn == conn && matches!(s.pkt, Some(Pkt::Connect(_)))).and_then(|s| s.delivered).map(t_of);
            let dropped = ix.conn_done.iter().find(|c| c.1 == conn);
            let timed_out = dropped.is_some_and(|c| c.2.contains("Timeout"));
            match connect_done {
                Some(tc) if tc + 1000 <= ct => {
                    if timed_out {
                        viol(v, "C20", format!("C20/connect-in-time-dropped/{role}"), format!("CONNECT was complete at {tc} ms, connect timeout {ct} ms, yet the connection was dropped for a handshake timeout"), dropped.map_or(0, |c| c.0));
                    }
                }
                Some(tc) if tc <= ct + 1000 => {} // on the edge of the grid: either outcome
                _ => {
                    // CONNECT late or never
                    if end_ms > ct + 2500 {
                        let t_drop = dropped.map(|c| t_of(c.0));
                        if !t_drop.is_some_and(|t| t <= ct + 2000) {
                            viol(v, "C20", format!("C20/connect-timeout-not-enforced/{role}"), format!("no complete CONNECT within {ct} ms, yet the connection was not dropped by {} ms (dropped at {t_drop:?})", ct + 2000), ix.last_seq);
                        }
                    }
                }
            }
        }
        "client-keepalive" => {
            // (MQTT 5: a Server Keep Alive in the CONNACK replaces what the client asked for)
            let imposed = if ix.ver == Ver::V5 { crate::refcodec::prop_u16(&out.plan.peer.connack_props, 19) } else { None };
            let ka = u64::from(imposed.unwrap_or(out.plan.cfg.client_keepalive_s)) * 1000;
            if ka == 0 {
                return;
            }
            // (a client started through the topic router has no control service that would mark the start of
            // the session: count from the delivery of the CONNACK)
            let connack_ms = ix.sent.iter().find(|s| s.conn == conn && matches!(s.pkt, Some(Pkt::ConnAck(_)))).and_then(|s| s.delivered).map(t_of);
            let Some(t0) = session_ms.or(connack_ms) else { return };
            let alive_until = stop_ms.or_else(|| ix.conn_done.iter().find(|c| c.1 == conn).map(|c| t_of(c.0))).unwrap_or(end_ms).min(end_ms);
            let mut pts: Vec<u64> = vec![t0];
            pts.extend(ix.eps.iter().filter(|e| e.conn == conn && matches!(e.pkt, Pkt::PingReq)).map(|e| t_of(e.seq)));
            pts.push(alive_until);
            for w in pts.windows(2) {
                if w[1] > w[0] + ka + 1100 {
                    viol(v, "C20", format!("C20/client-ping-missing/{role}"), format!("client keep-alive {ka} ms: no PINGREQ written between {} ms and {} ms", w[0], w[1]), ix.last_seq);
                    break;
                }
            }
            if ka_stop.is_some() || rd_stop.is_some() {
                viol(v, "C20", format!("C20/client-timer-ended-connection/{role}"), format!("client connection ended by a timer: {:?}", stop.map(|s| &s.2)), stop.map_or(0, |s| s.0));
            }
        }
        _ => {}
    }
}


// ------------------------------------------------------------------------------------------
// C19: handshake gate, version routing, negotiated limits are the ones enforced

pub fn check_c19(ix: &Ix<'_>, v: &mut Vec<Violation>) {
    let role = ix.role();
    let out = ix.out;
    if out.budget_hit || out.panic.is_some() || ix.settle_seq.is_none() {
        return;
    }
    let conn = 0usize;
    let v5 = ix.ver == Ver::V5;
    let cfg = &out.plan.cfg;
    let first = out.plan.tags.iter().find_map(|t| t.strip_prefix("first:")).unwrap_or("connect").to_string();
    let limit: Option<(String, u32)> = out.plan.tags.iter().find_map(|t| {
        let r = t.strip_prefix("limit:")?;
        let (n, val) = r.rsplit_once(':')?;
        Some((n.to_string(), val.parse().ok()?))
    });
    if !out.plan.role.is_server() {
        // client roles: only the enforcement clause applies (what the client announced in CONNECT)
        let stop = ix.stops.iter().find(|s| s.1 == conn);
        let ended = ix.conn_done.iter().any(|c| c.1 == conn);
        c19_limit_clause(ix, v, limit, stop, ended);
        return;
    }
    let hs = ix.gates.iter().find(|g| g.conn == conn && g.kind == GateKind::Handshake);
    let accepted_at = hs.and_then(|g| match &g.exit {
        Some((xs, Outcome::Ok)) => Some(*xs),
        _ => None,
    });
    let handlers: Vec<&G> = ix.gates.iter().filter(|g| g.conn == conn && matches!(g.kind, GateKind::Publish | GateKind::Proto)).collect();
    let way = if cfg.combined { "combined" } else { "plain" };

    // (1) the handshake gate
    for g in &handlers {
        match accepted_at {
            None => {
                viol(v, "C19", format!("C19/handler-without-accepted-connect/{role}/{way}/{}", first.split(':').next().unwrap_or("")), format!("a publish/protocol handler ran (gate {}) although no CONNECT was accepted (first packet: {first})", g.id), g.enter);
                return;
            }
            Some(a) if g.enter < a => {
                viol(v, "C19", format!("C19/handler-before-acceptance/{role}/{way}"), format!("handler gate {} entered at step {} before the handshake service accepted the CONNECT at step {a}", g.id, g.enter), g.enter);
                return;
            }
            _ => {}
        }
    }
    // (2) what must end the connection does
    let must_end = !(first == "connect" || first == "slow-handshake");
    let ended = ix.conn_done.iter().any(|c| c.1 == conn);
    if must_end {
        if hs.is_some() && !first.starts_with("refused") && first != "hs-error" {
            viol(v, "C19", format!("C19/handshake-service-saw-invalid-first-packet/{role}/{way}/{}", first.split(':').next().unwrap_or("")), format!("first packet {first} reached the application's handshake service"), hs.map_or(0, |g| g.enter));
        }
        if !ended {
            viol(v, "C19", format!("C19/connection-not-ended/{role}/{way}/{}", first.split(':').next().unwrap_or("")), format!("first packet {first}: the connection was still up at the end of the run"), ix.last_seq);
        }
        if let Some(code) = first.strip_prefix("refused:").and_then(|c| c.parse::<u8>().ok()) {
            let ack = ix.eps.iter().find(|e| e.conn == conn && matches!(&e.pkt, Pkt::ConnAck(_)));
            match ack {
                Some(EpP { pkt: Pkt::ConnAck(a), .. }) if a.code == code => {}
                Some(e) => viol(v, "C19", format!("C19/wrong-refusing-connack/{role}/{way}"), format!("handshake refused with code {code}, CONNACK on the wire: {}", e.pkt.brief()), e.seq),
                None => viol(v, "C19", format!("C19/no-refusing-connack/{role}/{way}"), format!("handshake refused with code {code} but no CONNACK was written before the connection was closed"), ix.last_seq),
            }
        }
        return;
    }
    // (3) version routing: the service of the CONNECT's protocol level handled it, nothing was lost
    let Some(h) = hs else {
        if ix.sent.iter().any(|s| s.conn == conn && matches!(s.pkt, Some(Pkt::Connect(_))) && s.delivered.is_some()) {
            viol(v, "C19", format!("C19/connect-not-handled/{role}/{way}"), "a valid CONNECT was delivered but the handshake service was never called".into(), ix.last_seq);
        }
        return;
    };
    if let GateDesc::Handshake { brief } = &h.desc {
        let by_v5 = brief.contains(" rm=");
        if by_v5 != v5 {
            viol(v, "C19", format!("C19/wrong-version-service/{role}/{way}"), format!("CONNECT with protocol level {} was handled by the MQTT {} service", if v5 { 5 } else { 4 }, if by_v5 { "5" } else { "3.1.1" }), h.enter);
            return;
        }
        let want = format!("CONNECT id=c0 ka={} ", out.plan.peer.connect.keep_alive);
        if !brief.starts_with(&want) {
            viol(v, "C19", format!("C19/connect-garbled/{role}/{way}"), format!("the handshake service saw {brief:?}, the peer sent {want:?}..."), h.enter);
        }
    }
    let Some(acc) = accepted_at else { return };
    // pipelined traffic is handled once the connection is accepted
    let stop = ix.stops.iter().find(|s| s.1 == conn);
    for s in ix.sent.iter().filter(|s| s.conn == conn && s.delivered.is_some()) {
        if let Some(Pkt::Publish(p)) = &s.pkt
            && (p.topic == "t/50" || p.topic == "t/51")
            && !ix.pub_gates(conn).any(|(_, seen)| seen.topic == p.topic)
            && stop.is_none()
            && !ended
        {
            viol(v, "C19", format!("C19/pipelined-packet-lost/{role}/{way}"), format!("PUBLISH {:?} sent right behind CONNECT was never handled after the connection was accepted (step {acc})", p.topic), ix.last_seq);
        }
    }
    // (4) MQTT 5: CONNACK announces the limits in force
    if v5 && let Some(EpP { pkt: Pkt::ConnAck(a), seq, .. }) = ix.eps.iter().find(|e| e.conn == conn && matches!(&e.pkt, Pkt::ConnAck(_))) {
        let rm = cfg.hs_receive_max.unwrap_or(cfg.max_receive);
        let got_rm = crate::refcodec::prop_u16(&a.props, 33).unwrap_or(65535);
        if rm != 0 && got_rm != rm {
            viol(v, "C19", format!("C19/connack-announces-other-limit/{role}/receive-maximum"), format!("Receive Maximum in force {rm}, CONNACK announces {got_rm}"), *seq);
        }
        let q = cfg.hs_max_qos.unwrap_or(cfg.max_qos).min(2);
        let got_q = crate::refcodec::prop_byte(&a.props, 36).unwrap_or(2);
        if got_q != q {
            viol(v, "C19", format!("C19/connack-announces-other-limit/{role}/maximum-qos"), format!("Maximum QoS in force {q}, CONNACK announces {got_q}"), *seq);
        }
        let al = cfg.hs_topic_alias_max.unwrap_or(cfg.max_topic_alias);
        let got_al = crate::refcodec::prop_u16(&a.props, 34).unwrap_or(0);
        if got_al != al {
            viol(v, "C19", format!("C19/connack-announces-other-limit/{role}/topic-alias-maximum"), format!("Topic Alias Maximum in force {al}, CONNACK announces {got_al}"), *seq);
        }
        let ms = cfg.hs_max_packet_size.unwrap_or(cfg.max_size);
        let got_ms = crate::refcodec::prop_u32(&a.props, 39).unwrap_or(0);
        if (ms != 0 || cfg.hs_max_packet_size == Some(0)) && got_ms != ms {
            viol(v, "C19", format!("C19/connack-announces-other-limit/{role}/maximum-packet-size"), format!("Maximum Packet Size in force {ms}, CONNACK announces {got_ms}"), *seq);
        }
        // a Server Keep Alive is an imposition: without an override by the handshake there is nothing to announce
        // (an announced value replaces what the client asked for)
        if cfg.hs_keepalive.is_none()
            && let Some(got) = crate::refcodec::prop_u16(&a.props, 19)
        {
            viol(v, "C19", format!("C19/unrequested-server-keepalive/{role}"), format!("the handshake did not override the keep-alive (client asked for {}), yet CONNACK announces Server Keep Alive {got}", out.plan.peer.connect.keep_alive), *seq);
        }
        // keep-alive imposed by the server is announced
        if let Some(k) = cfg.hs_keepalive {
            let client = out.plan.peer.connect.keep_alive;
            let got = crate::refcodec::prop_u16(&a.props, 19);
            if client > k && got != Some(k) {
                viol(v, "C19", format!("C19/imposed-keepalive-not-announced/{role}"), format!("server imposes keep-alive {k} on a client that asked for {client}, CONNACK announces {got:?}"), *seq);
            }
        }
    }
    c19_limit_clause(ix, v, limit, stop, ended);
}

/// (5) enforcement at exactly the negotiated value: the probe at the limit is handled, the one beyond is not
fn c19_limit_clause(ix: &Ix<'_>, v: &mut Vec<Violation>, limit: Option<(String, u32)>, stop: Option<&(u64, usize, StopClass)>, ended: bool) {
    let role = ix.role();
    let out = ix.out;
    let conn = 0usize;
    if let Some((name, val)) = limit {
        let probes: Vec<&Sent> = ix
            .sent
            .iter()
            .filter(|s| {
                s.conn == conn
                    && match &s.pkt {
                        Some(Pkt::Publish(p)) => p.topic.starts_with("t/6") || p.topic.starts_with("t/7") || p.topic.starts_with("t/8") || p.topic.starts_with("t/9"),
                        // the size limit is also probed with a packet that is not a PUBLISH
                        Some(Pkt::Subscribe(x)) => x.filters.first().is_some_and(|f| f.0.starts_with("t/6")),
                        _ => false,
                    }
            })
            .collect();
        if probes.is_empty() || probes.iter().any(|s| s.delivered.is_none()) {
            return;
        }
        let handled = |s: &Sent| match &s.pkt {
            Some(Pkt::Publish(p)) => ix.pub_gates(conn).any(|(_, seen)| seen.topic == p.topic || (p.topic.is_empty())),
            Some(Pkt::Subscribe(x)) => ix.gates.iter().any(|g| g.conn == conn && matches!(&g.desc, GateDesc::Proto { brief, .. } if brief.starts_with("SUBSCRIBE") && x.filters.first().is_some_and(|f| brief.contains(&f.0[..f.0.len().min(12)])))),
            _ => false,
        };
        let n_within = out.plan.tags.iter().find_map(|t| t.strip_prefix("probes-within:").and_then(|n| n.parse::<usize>().ok())).unwrap_or(probes.len() - 1);
        let (within, beyond) = probes.split_at(n_within.min(probes.len()));
        for s in within {
            if !handled(s) {
                let t = if let Some(Pkt::Publish(p)) = &s.pkt { p.topic.clone() } else { String::new() };
                viol(v, "C19", format!("C19/refused-within-limit/{role}/{name}"), format!("{name} in force {val}: PUBLISH {t:?} stays within it but never reached a handler (connection: {:?})", stop.map(|s| &s.2)), ix.last_seq);
                return;
            }
        }
        let Some(b) = beyond.first().copied() else { return };
        if handled(b) {
            let t = if let Some(Pkt::Publish(p)) = &b.pkt { p.topic.clone() } else { String::new() };
            viol(v, "C19", format!("C19/limit-not-enforced/{role}/{name}"), format!("{name} in force {val}: PUBLISH {t:?} exceeds it and reached a handler"), ix.last_seq);
        } else if !matches!(stop, Some((_, _, StopClass::Protocol(_)))) && !ended {
            viol(v, "C19", format!("C19/limit-violation-ignored/{role}/{name}"), format!("{name} in force {val}: the exceeding PUBLISH neither reached a handler nor ended the connection"), ix.last_seq);
        }
    }
}

// ------------------------------------------------------------------------------------------
// C16: no well-formed sequence panics or hangs an endpoint

pub fn check_c16(ix: &Ix<'_>, v: &mut Vec<Violation>) {
    let role = ix.role();
    let out = ix.out;
    if out.plan.ending == Ending::Stop || ix.settle_seq.is_none() || out.budget_hit || out.panic.is_some() {
        return;
    }
    let conn = 0usize;
    let ended = ix.conn_ended(conn);
    // A packet that certainly violates the protocol ends the connection by itself: it does not wait for
    // unrelated publish handlers that are still busy. Judged at the quiescence of the scripted part
    // (handlers may be held until the closing phase), for violations that need no model of the endpoint's
    // state: an acknowledgement while the endpoint never sent anything that could be acknowledged, a
    // MQTT 3.1.1 PUBLISH whose identifier belongs to a publish whose handler is still running, a MQTT 5
    // PUBLISH with a topic alias that was never bound. Not judged while a protocol (control) handler is
    // busy: control packets are processed one at a time.
    if let Some(settle) = ix.settle_seq
        && ix.fault("fin") + ix.fault("rst") + ix.fault("wr_err") == 0
    {
        let ended_before_settle = ix.stops.iter().any(|s| s.1 == conn && s.0 < settle)
            || ix.conn_done.iter().any(|c| c.1 == conn && c.0 < settle)
            || ix.ep_closed.iter().any(|c| c.1 == conn && c.0 < settle);
        let accepted_at = ix.gates.iter().find(|g| g.conn == conn && g.kind == GateKind::Handshake).and_then(|g| match &g.exit {
            Some((xs, Outcome::Ok)) => Some(*xs),
            _ => None,
        });
        let session_at = ix.sessions.iter().find(|s| s.1 == conn).map(|s| s.0);
        let proto_busy = ix.gates.iter().any(|g| g.conn == conn && g.kind == GateKind::Proto && g.enter < settle && g.exit.as_ref().is_none_or(|x| x.0 > settle) && g.dropped.is_none_or(|d| d > settle));
        let never_sends = out.plan.senders.is_empty();
        // reading may be paused on purpose: the receive limits (C12) are reached by the handlers still running
        let running_pubs: Vec<&G> = ix.gates.iter().filter(|g| g.conn == conn && g.kind == GateKind::Publish && g.enter < settle && g.exit.as_ref().is_none_or(|x| x.0 > settle) && g.dropped.is_none_or(|d| d > settle)).collect();
        let running_bytes: usize = running_pubs
            .iter()
            .map(|g| if let GateDesc::Publish(p) = &g.desc { ix.sent.iter().find(|s| matches!(&s.pkt, Some(Pkt::Publish(q)) if q.topic == p.topic)).map_or(0, |s| s.len) } else { 0 })
            .sum();
        let cfg = &out.plan.cfg;
        let paused_by_limits = (cfg.max_receive_size != 0 && running_bytes + 8 >= cfg.max_receive_size) || (cfg.max_receive != 0 && running_pubs.len() >= cfg.max_receive as usize);
        if !ended_before_settle && !proto_busy && !paused_by_limits && session_at.is_some() {
            for s in ix.sent.iter().filter(|s| s.conn == conn && !s.corrupt && s.delivered.is_some_and(|d| d < settle)) {
                let d = s.delivered.unwrap_or(0);
                let what = match &s.pkt {
                    // a second CONNECT, or a packet type only a server ever sends (since the repair bb1fa1e the
                    // server dispatchers report these as unexpected packets instead of dropping them)
                    Some(Pkt::Connect(_)) if out.plan.role.is_server() && accepted_at.is_some_and(|a| a < s.seq) => Some("second-CONNECT"),
                    Some(Pkt::ConnAck(_) | Pkt::SubAck(_) | Pkt::UnsubAck(_) | Pkt::PingResp) if out.plan.role.is_server() && accepted_at.is_some_and(|a| a < s.seq) => Some("server-only-packet-type"),
                    Some(Pkt::PubAck(_) | Pkt::PubRec(_) | Pkt::PubComp(_)) if never_sends && session_at.is_some_and(|a| a < s.seq) => Some("ack-for-nothing"),
                    // MQTT 3.1.1: an identifier whose publish handler is still running is certainly in use (C11)
                    Some(Pkt::Publish(p)) if ix.ver == Ver::V3 && p.qos > 0 && p.pid.is_some() => ix
                        .sent
                        .iter()
                        .filter(|e| e.conn == conn && e.seq < s.seq && !e.corrupt)
                        .filter_map(|e| match &e.pkt {
                            Some(Pkt::Publish(q)) if q.qos > 0 && q.pid == p.pid => Some(q),
                            _ => None,
                        })
                        .any(|q| ix.pub_gates(conn).any(|(g, seen)| seen.topic == q.topic && g.enter < d && g.exit.as_ref().is_none_or(|x| x.0 > settle) && g.dropped.is_none_or(|x| x > settle)))
                        .then_some("id-in-use"),
                    // MQTT 5: a topic alias that was never bound on this connection (C17)
                    Some(Pkt::Publish(p)) if ix.ver == Ver::V5 && p.topic.is_empty() => {
                        let alias = crate::refcodec::prop_u16(&p.props, 35);
                        let bound = ix.sent.iter().filter(|e| e.conn == conn && e.seq < s.seq).any(|e| matches!(&e.pkt, Some(Pkt::Publish(q)) if !q.topic.is_empty() && crate::refcodec::prop_u16(&q.props, 35) == alias));
                        (alias.is_some() && !bound).then_some("unknown-alias")
                    }
                    _ => None,
                };
                if let Some(what) = what {
                    viol(
                        v,
                        "C16",
                        format!("C16/violation-did-not-end-connection/{role}/{what}"),
                        format!("{} was delivered at step {:?}; it can only be a protocol violation, yet the connection was still up (and no Stop reported) when the scripted part had gone quiet with publish handlers busy", s.pkt.as_ref().map_or(String::new(), |p| p.brief()), s.delivered),
                        settle,
                    );
                    break;
                }
            }
        }
    }
    // the probe is the last scripted step
    let probe = ix.sent.iter().rev().find(|s| match &s.pkt {
        Some(Pkt::PingReq) => out.plan.role.is_server(),
        Some(Pkt::Publish(p)) => p.topic == "probe",
        _ => false,
    });
    if !ended {
        if let Some(p) = probe
            && p.delivered.is_some()
        {
            let answered = if out.plan.role.is_server() {
                let reqs = ix.sent.iter().filter(|s| matches!(s.pkt, Some(Pkt::PingReq)) && s.delivered.is_some()).count();
                let resps = ix.eps.iter().filter(|e| matches!(e.pkt, Pkt::PingResp)).count();
                resps >= reqs
            } else {
                ix.eps.iter().any(|e| matches!(&e.pkt, Pkt::PubAck(a) | Pkt::PubRec(a) if a.pid == 0x6001))
            };
            if !answered {
                let last = ix.sent.iter().rev().filter(|s| s.seq < p.seq).find_map(|s| s.pkt.as_ref().map(|x| x.name())).unwrap_or("none");
                viol(v, "C16", format!("C16/hang/{role}/after-{last}"), "the connection is alive at final quiescence but the probe sent after the sequence was never answered: the endpoint stopped making progress".into(), ix.last_seq);
            }
        }
    } else {
        // the connection ended: the connection task completed and (after the handshake) the control
        // service was told exactly once
        let done = ix.conn_done.iter().any(|c| c.1 == conn);
        if !done {
            viol(v, "C16", format!("C16/ended-but-task-running/{role}"), "the connection ended but the connection task never completed".into(), ix.last_seq);
        }
    }
}

pub fn check_all(out: &RunOut) -> Vec<Violation> {
    if matches!(out.plan.family, "C02" | "C10") {
        let mut v = out.pre_violations.clone();
        if let Some(p) = &out.panic {
            let loc = p.rsplit(" @ ").next().unwrap_or("").to_string();
            // (a C10 run feeds a valid, unmutated stream: a panic under one of its fragmentations means that cutting
            // did not give the same packets - C10's own clause; in a C02 run it is C02's no-panic clause)
            let prop: &'static str = if out.plan.family == "C10" { "C10" } else { "C02" };
            v.push(Violation { prop, key: format!("{prop}/panic/codec/{loc}"), msg: format!("panic: {p}"), at_seq: 0 });
        }
        return v;
    }
    let ix = Ix::new(out);
    let mut v = Vec::new();
    monitors(&ix, &mut v);
    match out.plan.family {
        "C03" => {
            check_c03(&ix, &mut v);
            check_c04(&ix, &mut v);
        }
        "C04" | "C04X" => {
            check_c04(&ix, &mut v);
            check_c03(&ix, &mut v);
        }
        "C11" | "C11X" => {
            check_c11(&ix, &mut v);
            check_handler_content(&ix, &mut v, "C03");
        }
        "C12" => {
            check_c12(&ix, &mut v);
            check_c03(&ix, &mut v);
            check_c04(&ix, &mut v);
        }
        "C16" | "C16X" => {
            check_c16(&ix, &mut v);
        }
        "C07" | "C07X" => {
            check_c07(&ix, &mut v);
            check_c15(&ix, &mut v);
        }
        "C17" => {
            check_c17(&ix, &mut v);
        }
        "C10C" => {
            check_handler_content(&ix, &mut v, "C10");
            check_c03(&ix, &mut v);
            // every byte the peer sends in this family is part of a valid packet, whatever the handlers do
            // with the payloads (read at once, read late, abandon): a protocol or decoding error reported by
            // the endpoint means payload bytes were taken for something else
            if let Some((sq, _, StopClass::Protocol(m))) = ix.stops.iter().find(|s| s.1 == 0 && matches!(s.2, StopClass::Protocol(_))) {
                viol(&mut v, "C10", format!("C10/valid-stream-ended-connection/{}", ix.role()), format!("the peer sent only valid packets, the endpoint ended the connection with {m}"), *sq);
            } else if let Some((sq, _)) = ix.ep_closed.iter().find(|c| c.1 == 0)
                && ix.settle_seq.is_none_or(|s| *sq < s)
                && out.plan.w_outcome[1] + out.plan.w_outcome[2] == 0
                && !out.budget_hit
                && out.panic.is_none()
            {
                // (nobody closes in this family - no fault, no failing handler, no closing sender: the endpoint
                // closed a healthy connection on its own, e.g. because a reader abandoned a payload)
                viol(&mut v, "C10", format!("C10/valid-stream-ended-connection/{}/closed", ix.role()), "the peer sent only valid packets and never closed, yet the endpoint closed the connection while the stream was still arriving".into(), *sq);
            }
        }
        "C20" | "C20L" => {
            check_c20(&ix, &mut v);
        }
        "C19" | "C19C" => {
            check_c19(&ix, &mut v);
        }
        "C19W" => {
            // the window in force is min(configured or overridden, peer's Receive Maximum): C05's oracle
            // computes exactly that limit (families::send_limit); report it as C19's clause
            let mut w = Vec::new();
            check_c05(&ix, &mut w);
            for x in w {
                if x.prop == "C05" {
                    v.push(Violation { prop: "C19", key: x.key.replacen("C05/", "C19/send-", 1), msg: x.msg, at_seq: x.at_seq });
                } else {
                    v.push(x);
                }
            }
        }
        "C15" => {
            check_c15(&ix, &mut v);
            check_c07(&ix, &mut v);
        }
        "C06L" => check_c06_long(&ix, &mut v),
        "C05" | "C06" | "C13" | "C13X" | "C14" | "C08" => {
            check_c05(&ix, &mut v);
            check_c06(&ix, &mut v);
            check_c13(&ix, &mut v);
            check_c14(&ix, &mut v);
            check_c08(&ix, &mut v);
            check_c04(&ix, &mut v);
        }
        _ => {}
    }
    v
}
