//! Application stubs for MQTT 5 endpoints: gated handshake / publish / protocol / control services
//! and scripted sender tasks, all built on ntex-mqtt's public API only.
use std::{num::NonZeroU16, num::NonZeroU32, rc::Rc};

use ntex_bytes::{ByteString, Bytes};
use ntex_io::{Io, IoBoxed};
use ntex_mqtt::v5::{self, codec};
use ntex_mqtt::{Control, Reason};
use ntex_service::cfg::SharedCfg;
use ntex_service::{Pipeline, ServiceFactory, fn_factory_with_config, fn_service};
use ntex_util::future::{Either, join, select};

use crate::common::{AppErr, conn_of_client_id, props_sig_v5, shared_cfg};
use crate::plan::{AppOp, HsOutcome, Plan};
use crate::world::{
    AckInfo, Ev, GateDesc, GateGuard, GateKind, OpResult, Outcome, PayloadMode, PubSeen, StopClass, World,
    digest_bytes, make_payload,
};

#[derive(Clone)]
pub struct St {
    pub conn: usize,
}

impl TryFrom<AppErr> for v5::PublishAck {
    type Error = AppErr;
    fn try_from(err: AppErr) -> Result<Self, Self::Error> {
        match err {
            AppErr::Neg(code) => match codec::PublishAckReason::try_from(code) {
                Ok(c) => Ok(v5::PublishAck::new(c)),
                Err(_) => Err(AppErr::Fatal),
            },
            e => Err(e),
        }
    }
}

pub fn pub_seen(p: &v5::Publish, route: &str) -> PubSeen {
    let pk = p.packet();
    PubSeen {
        topic: p.publish_topic().to_string(),
        qos: pk.qos as u8,
        dup: pk.dup,
        retain: pk.retain,
        pid: pk.packet_id.map(NonZeroU16::get),
        declared_len: p.payload_size(),
        props_sig: props_sig_v5(&pk.properties),
        alias: pk.properties.topic_alias.map(NonZeroU16::get),
        route: route.to_string(),
    }
}

/// The gated publish handler (shared by server and client roles).
pub async fn publish_handler(w: Rc<World>, conn: usize, p: v5::Publish, route: &'static str) -> Result<v5::PublishAck, AppErr> {
    let (gid, imm) = w.gate_enter(conn, GateKind::Publish, GateDesc::Publish(pub_seen(&p, route)));
    let _guard = GateGuard { w: w.clone(), id: gid };
    let mode = w.gates.borrow()[gid].payload_mode;
    match mode {
        PayloadMode::Eager => match {
            w.ev(Ev::PayloadWait { gate: gid });
            p.read_all().await
        } {
            Ok(b) => w.ev(Ev::PayloadEnd { gate: gid, total: b.len(), digest: digest_bytes(&b), err: None }),
            Err(e) => w.ev(Ev::PayloadEnd { gate: gid, total: 0, digest: 0, err: Some(format!("{e:?}")) }),
        },
        PayloadMode::LateAll => {
            w.gate_wait_read(gid).await;
            w.ev(Ev::PayloadWait { gate: gid });
            match p.read_all().await {
                Ok(b) => w.ev(Ev::PayloadEnd { gate: gid, total: b.len(), digest: digest_bytes(&b), err: None }),
                Err(e) => w.ev(Ev::PayloadEnd { gate: gid, total: 0, digest: 0, err: Some(format!("{e:?}")) }),
            }
            w.gates.borrow_mut()[gid].read_done = true;
        }
        PayloadMode::Lazy => {
            let mut all: Vec<u8> = Vec::new();
            loop {
                w.gate_wait_read(gid).await;
                w.ev(Ev::PayloadWait { gate: gid });
                match p.read().await {
                    Ok(Some(b)) => {
                        w.ev(Ev::PayloadPiece { gate: gid, len: b.len(), digest: digest_bytes(&b) });
                        all.extend_from_slice(&b);
                    }
                    Ok(None) => {
                        w.ev(Ev::PayloadEnd { gate: gid, total: all.len(), digest: digest_bytes(&all), err: None });
                        break;
                    }
                    Err(e) => {
                        w.ev(Ev::PayloadEnd {
                            gate: gid,
                            total: all.len(),
                            digest: digest_bytes(&all),
                            err: Some(format!("{e:?}")),
                        });
                        break;
                    }
                }
            }
            w.gates.borrow_mut()[gid].read_done = true;
        }
        PayloadMode::Abandon => {}
    }
    let outcome = match imm {
        Some(o) => o,
        None => w.gate_wait(gid).await,
    };
    w.gate_exit(gid, outcome.clone());
    match outcome {
        Outcome::Ok => Ok(match w.ack_props.get() {
            Some((u, r)) => p
                .ack()
                .properties(|ps| ps.push((ByteString::from("k"), ByteString::from("v".repeat(u as usize)))))
                .reason(ByteString::from("r".repeat(r as usize))),
            None => p.ack(),
        }),
        // an application refuses a publish in one of two styles: an error that `TryFrom<E> for PublishAck`
        // maps to the negative acknowledgement, or (QoS 1/2 only) Ok with an acknowledgement carrying the code
        Outcome::Neg(c) if gid % 2 == 1 && p.packet().packet_id.is_some() => match codec::PublishAckReason::try_from(c) {
            Ok(rc) => Ok(p.ack().reason_code(rc)),
            Err(_) => Err(AppErr::Neg(c)),
        },
        Outcome::Neg(c) => Err(AppErr::Neg(c)),
        _ => Err(AppErr::Fatal),
    }
}

fn proto_brief(m: &v5::ProtocolMessage) -> (String, Option<u16>) {
    match m {
        v5::ProtocolMessage::Auth(a) => (format!("AUTH c={:?}", a.packet().reason_code), None),
        v5::ProtocolMessage::PublishRelease(r) => {
            (format!("PUBREL #{}", r.packet().packet_id), Some(r.packet().packet_id.get()))
        }
        v5::ProtocolMessage::Subscribe(s) => (
            format!(
                "SUBSCRIBE #{} {}",
                s.packet().packet_id,
                s.packet().topic_filters.first().map_or("", |f| f.0.as_ref())
            ),
            Some(s.packet().packet_id.get()),
        ),
        v5::ProtocolMessage::Unsubscribe(s) => (
            format!(
                "UNSUBSCRIBE #{} {}",
                s.packet().packet_id,
                s.packet().topic_filters.first().map_or("", |f| f.as_ref())
            ),
            Some(s.packet().packet_id.get()),
        ),
        v5::ProtocolMessage::Disconnect(d) => (format!("DISCONNECT c={:?}", d.packet().reason_code), None),
        v5::ProtocolMessage::Ping(_) => ("PINGREQ".to_string(), None),
    }
}

pub async fn proto_handler(w: Rc<World>, conn: usize, msg: v5::ProtocolMessage, sink: Option<v5::MqttSink>) -> Result<v5::ProtocolMessageAck, AppErr> {
    let (brief, pid) = proto_brief(&msg);
    let sends = brief.contains("hs/");
    let (gid, imm) = w.gate_enter(conn, GateKind::Proto, GateDesc::Proto { brief, pid });
    let _guard = GateGuard { w: w.clone(), id: gid };
    if let (Some(sink), v5::ProtocolMessage::Subscribe(_), true) = (&sink, &msg, sends) {
        let r = sink.publish(ByteString::from(format!("h/{gid}"))).send_at_least_once(Bytes::from_static(b"hs")).await;
        w.ev(Ev::Note { what: format!("handler send of gate {gid}: {}", if r.is_ok() { "acked" } else { "failed" }) });
    }
    let outcome = match imm {
        Some(o) => o,
        None => w.gate_wait(gid).await,
    };
    w.gate_exit(gid, outcome.clone());
    match outcome {
        Outcome::Ok | Outcome::Neg(_) => Ok(match msg {
            v5::ProtocolMessage::Subscribe(mut s) => {
                // grant: the i-th filter gets QoS (i % 3), recognisable at the peer
                for (i, mut sub) in s.iter_mut().enumerate() {
                    sub.confirm(match i % 3 {
                        0 => codec::QoS::AtMostOnce,
                        1 => codec::QoS::AtLeastOnce,
                        _ => codec::QoS::ExactlyOnce,
                    });
                }
                s.ack()
            }
            v5::ProtocolMessage::Auth(a) => {
                let resp = codec::Auth { reason_code: codec::AuthReasonCode::ContinueAuth, ..Default::default() };
                a.ack(resp)
            }
            m => m.ack(),
        }),
        Outcome::Disconnect(code) => {
            let rc = codec::DisconnectReasonCode::try_from(code).unwrap_or(codec::DisconnectReasonCode::UnspecifiedError);
            Ok(msg.disconnect_with(codec::Disconnect::new(rc)))
        }
        _ => Err(AppErr::Fatal),
    }
}

pub fn stop_class<E>(r: &Reason<E>) -> StopClass {
    match r {
        Reason::Error(_) => StopClass::AppError,
        Reason::Protocol(p) => StopClass::Protocol(format!("{:?}", p.get_ref())),
        Reason::PeerGone(p) => StopClass::PeerGone(p.err().is_some()),
    }
}

pub async fn control_handler(w: Rc<World>, conn: usize, gated: bool, msg: Control<AppErr>, sink: Option<v5::MqttSink>) -> Result<Option<codec::Encoded>, AppErr> {
    match msg {
        Control::WrBackpressure(st) => {
            w.ev(Ev::Control { conn, wr: Some(st.enabled()), stop: None });
            Ok(None)
        }
        Control::Stop(reason) => {
            let cls = stop_class(&reason);
            w.ev(Ev::Control { conn, wr: None, stop: Some(cls.clone()) });
            if let Some(sink) = &sink {
                // one more awaiting send while the end of the connection is being handled: it must fail, or
                // respect the window like any other
                let r = sink.publish(ByteString::from("hc/stop")).send_at_least_once(Bytes::from_static(b"bye")).await;
                w.ev(Ev::Note { what: format!("send from the Stop handler: {}", if r.is_ok() { "acked" } else { "failed" }) });
            }
            let outcome = if gated {
                let (gid, imm) =
                    w.gate_enter(conn, GateKind::Control, GateDesc::Control { brief: format!("{cls:?}") });
                let _guard = GateGuard { w: w.clone(), id: gid };
                let o = match imm {
                    Some(o) => o,
                    None => w.gate_wait(gid).await,
                };
                w.gate_exit(gid, o.clone());
                o
            } else {
                Outcome::Ok
            };
            match outcome {
                Outcome::OwnDisconnect(code) => {
                    let rc = codec::DisconnectReasonCode::try_from(code)
                        .unwrap_or(codec::DisconnectReasonCode::UnspecifiedError);
                    Ok(Some(codec::Encoded::Packet(codec::Packet::Disconnect(codec::Disconnect::new(rc)))))
                }
                Outcome::Err => Err(AppErr::Fatal),
                _ => Ok(None),
            }
        }
    }
}

pub async fn handshake_handler(w: Rc<World>, plan: Rc<Plan>, h: v5::Handshake) -> Result<v5::HandshakeAck<St>, AppErr> {
    let conn = conn_of_client_id(&h.packet().client_id);
    let cfg = &plan.cfg;
    let c = h.packet();
    let brief = format!(
        "CONNECT id={} ka={} rm={:?} mps={:?} sig={:016x}",
        c.client_id,
        c.keep_alive,
        c.receive_max,
        c.max_packet_size,
        crate::common::connect_sig_v5(c)
    );
    let (gid, _) = w.gate_enter(conn, GateKind::Handshake, GateDesc::Handshake { brief });
    let _guard = GateGuard { w: w.clone(), id: gid };
    if cfg.early_senders && conn == 0 && matches!(cfg.hs, HsOutcome::Accept) {
        // the application starts publishing through the handshake's sink before it acknowledges the CONNECT
        start_senders(&w, &plan, h.sink());
    }
    let planned = match &cfg.hs {
        HsOutcome::Accept => Outcome::Ok,
        HsOutcome::Refuse(c) => Outcome::Refuse(*c),
        HsOutcome::Error => Outcome::Err,
    };
    if cfg.hs_gated {
        let _ = w.gate_wait(gid).await;
    }
    w.gate_exit(gid, planned.clone());
    match planned {
        Outcome::Ok => {
            let mut ack = h.ack(St { conn });
            if let Some(k) = cfg.hs_keepalive {
                ack = ack.keep_alive(k);
            }
            if cfg.hs_max_send.is_some() {
                ack = ack.max_send(cfg.hs_max_send);
            }
            let cfg2 = cfg.clone();
            ack = ack.with(move |p| {
                if let Some(v) = cfg2.hs_receive_max
                    && let Some(v) = NonZeroU16::new(v)
                {
                    p.receive_max = v;
                }
                if let Some(q) = cfg2.hs_max_qos {
                    p.max_qos = qos(q);
                }
                if let Some(v) = cfg2.hs_topic_alias_max {
                    p.topic_alias_max = v;
                }
                if let Some(v) = cfg2.hs_max_packet_size {
                    p.max_packet_size = if v == 0 { None } else { Some(v) };
                }
                if let Some(v) = cfg2.hs_retain_available {
                    p.retain_available = v;
                }
                if let Some(v) = cfg2.hs_sub_ids_available {
                    p.subscription_identifiers_available = v;
                }
            });
            Ok(ack)
        }
        Outcome::Refuse(code) => {
            let rc = codec::ConnectAckReason::try_from(code).unwrap_or(codec::ConnectAckReason::NotAuthorized);
            Ok(h.failed(rc))
        }
        _ => Err(AppErr::Fatal),
    }
}

pub fn qos(q: u8) -> codec::QoS {
    match q {
        0 => codec::QoS::AtMostOnce,
        1 => codec::QoS::AtLeastOnce,
        _ => codec::QoS::ExactlyOnce,
    }
}

/// Build the v5 server from the plan and serve `plan.conns` connections over simulated streams.
/// Builds handshake / control / protocol / publish factories of the v5 server from the plan.
macro_rules! v5_parts {
    ($w:expr, $plan:expr) => {{
        let w: Rc<World> = $w;
        let plan: Rc<Plan> = $plan;

    let (w1, p1) = (w.clone(), plan.clone());
    let hs = fn_factory_with_config(move |_: SharedCfg| {
        let (w, plan) = (w1.clone(), p1.clone());
        async move {
            Ok::<_, AppErr>(fn_service(move |h: v5::Handshake| handshake_handler(w.clone(), plan.clone(), h)))
        }
    });

    let (w2, p2) = (w.clone(), plan.clone());
    let ctl = fn_factory_with_config(move |ses: v5::Session<St>| {
        let (w, gated, conn) = (w2.clone(), p2.cfg.ctl_gated, ses.conn);
        let ctl_sink = if p2.cfg.ctl_sends { Some(ses.sink().clone()) } else { None };
        w.ev(Ev::Session { conn });
        async move {
            Ok::<_, AppErr>(fn_service(move |msg: Control<AppErr>| control_handler(w.clone(), conn, gated, msg, ctl_sink.clone())))
        }
    });

    let (w3, p3) = (w.clone(), plan.clone());
    let proto = fn_factory_with_config(move |ses: v5::Session<St>| {
        let (w, conn) = (w3.clone(), ses.conn);
        let sink = if p3.cfg.handler_sends { Some(ses.sink().clone()) } else { None };
        async move {
            Ok::<_, AppErr>(fn_service(move |msg: v5::ProtocolMessage| proto_handler(w.clone(), conn, msg, sink.clone())))
        }
    });

    let (w4, p4) = (w.clone(), plan.clone());
    let publish = fn_factory_with_config(move |ses: v5::Session<St>| {
        let (w, plan, conn) = (w4.clone(), p4.clone(), ses.conn);
        // the session's sink: start the scripted sender tasks of this connection
        if conn == 0 && !plan.cfg.early_senders {
            start_senders(&w, &plan, ses.sink().clone());
        }
        async move {
            let w0 = w.clone();
            Ok::<_, AppErr>(crate::common::GSvc { w: w0, conn, f: move |p: v5::Publish| publish_handler(w.clone(), conn, p, "default") })
        }
    });


        (hs, ctl, proto, publish)
    }};
}
pub(crate) use v5_parts;

pub async fn run_server(w: Rc<World>, plan: Rc<Plan>) {
    let cfg: SharedCfg = shared_cfg(&plan.cfg);
    let (hs, ctl, proto, publish) = v5_parts!(w.clone(), plan.clone());
    if plan.cfg.use_router {
        // resources as in the client role: "a", "b/{x}", "t/{id}"; everything else goes to `publish`
        let (wa, wb, wt) = (w.clone(), w.clone(), w.clone());
        let router = v5::Router::new(publish)
            .resource(
                "a",
                fn_factory_with_config(move |ses: v5::Session<St>| {
                    let (w, conn) = (wa.clone(), ses.conn);
                    async move { Ok::<_, AppErr>(fn_service(move |p: v5::Publish| publish_handler(w.clone(), conn, p, "res:a"))) }
                }),
            )
            .resource(
                "b/{x}",
                fn_factory_with_config(move |ses: v5::Session<St>| {
                    let (w, conn) = (wb.clone(), ses.conn);
                    async move { Ok::<_, AppErr>(fn_service(move |p: v5::Publish| publish_handler(w.clone(), conn, p, "res:b"))) }
                }),
            )
            .resource(
                "t/{id}",
                fn_factory_with_config(move |ses: v5::Session<St>| {
                    let (w, conn) = (wt.clone(), ses.conn);
                    async move { Ok::<_, AppErr>(fn_service(move |p: v5::Publish| publish_handler(w.clone(), conn, p, "res:t"))) }
                }),
            );
        let factory = v5::MqttServer::new(hs).control(ctl).protocol(proto).publish(router);
        serve_all(factory, w, plan, cfg).await;
    } else {
        let factory = v5::MqttServer::new(hs).control(ctl).protocol(proto).publish(publish);
        serve_all(factory, w, plan, cfg).await;
    }
}

pub async fn serve_all<F>(factory: F, w: Rc<World>, plan: Rc<Plan>, cfg: SharedCfg)
where
    F: ServiceFactory<IoBoxed, SharedCfg, Response = ()>,
    F::Error: std::fmt::Debug,
    F::InitError: std::fmt::Debug,
    F::Service: 'static,
{
    let svc = match factory.create(cfg.clone()).await {
        Ok(s) => Pipeline::new(s),
        Err(e) => {
            *w.setup_error.borrow_mut() = Some(format!("server factory: {e:?}"));
            return;
        }
    };

    for _ in 0..plan.conns {
        let (cid, wire) = w.add_wire();
        let io = Io::new(wire.stream(), cfg.clone());
        let svc = svc.clone();
        let w = w.clone();
        ntex_util::spawn(async move {
            let res = svc.call(IoBoxed::from(io)).await;
            let s = match res {
                Ok(()) => "ok".to_string(),
                Err(e) => format!("err:{e:?}"),
            };
            w.conn_done.borrow_mut()[cid] = Some(s.clone());
            w.ev(Ev::ConnDone { conn: cid, res: s });
        });
    }
}

// ------------------------------------------------------------------------------------------
// sender tasks

pub fn start_senders(w: &Rc<World>, plan: &Rc<Plan>, sink: v5::MqttSink) {
    if plan.senders.iter().flatten().any(|o| matches!(o, AppOp::PubQ1Nb { .. })) {
        let w = w.clone();
        let q = if plan.cfg.cb_queries { Some(sink.clone()) } else { None };
        let cb_sends = plan.cfg.cb_sends;
        sink.publish_ack_cb(move |a, disc| {
            if let Some(s) = &q {
                w.cb_query(s.is_open(), s.is_ready(), s.credit());
                if cb_sends {
                    let r = s.publish(ByteString::from_static("cb/q0")).send_at_most_once(Bytes::from_static(b"cb"));
                    w.probe(if r.is_ok() { "cb_send_ok" } else { "cb_send_err" });
                    // ... and refills the window like a pipeline would: a non-blocking QoS 1 send from inside the
                    // callback (at most two per run: each of them is acknowledged into this callback again)
                    if !disc && s.is_ready() && w.cb_refill() {
                        let r = s.publish(ByteString::from_static("cb/q1")).send_at_least_once_no_block(Bytes::from_static(b"cb"));
                        w.probe(if r.is_ok() { "cb_refill_ok" } else { "cb_refill_err" });
                    }
                }
            }
            w.ack_cb(a.packet_id.get(), a.reason_code as u8, crate::common::user_props_sig(&a.properties, a.reason_string.as_ref()), disc);
        });
    }
    for (sidx, ops) in plan.senders.iter().enumerate() {
        let slot = w.add_sender(ops.len());
        debug_assert_eq!(slot, sidx);
        let (w, sink, ops) = (w.clone(), sink.clone(), ops.clone());
        ntex_util::spawn(sender_task(w, sidx, sink, ops));
    }
}

fn op_topic(sidx: usize, op: usize) -> ByteString {
    ByteString::from(format!("s{sidx}/o{op}"))
}

pub fn op_tag(sidx: usize, op: usize) -> u32 {
    ((sidx as u32) << 8 | op as u32) + 1
}

fn err_str(e: &ntex_mqtt::error::SendPacketError) -> String {
    format!("{e:?}")
}

async fn sender_task(w: Rc<World>, sidx: usize, sink: v5::MqttSink, ops: Vec<AppOp>) {
    while let Some(opi) = w.sender_next(sidx).await {
        let op = ops[opi].clone();
        w.ev(Ev::OpStart { sender: sidx, op: opi, brief: op.brief() });
        if let AppOp::PubQ2 { len, pid } = &op {
            // The receipt type is not nameable outside the crate: keep it in this scope and run the
            // following Release / DropReceipt op inline.
            let mut b = sink.publish(op_topic(sidx, opi));
            if let Some(p) = pid {
                b = b.packet_id(*p);
            }
            let fut = b.send_exactly_once(Bytes::from(make_payload(op_tag(sidx, opi), *len as usize)));
            let rcpt = match select(fut, w.sender_cancelled(sidx)).await {
                Either::Left(Ok(r)) => {
                    w.sender_op_done(sidx);
                    w.ev(Ev::OpDone { sender: sidx, op: opi, res: ack_info("pubrec", r.packet()) });
                    r
                }
                Either::Left(Err(e)) => {
                    w.sender_op_done(sidx);
                    w.ev(Ev::OpDone { sender: sidx, op: opi, res: OpResult::Err(err_str(&e)) });
                    w.sender_skip_next(sidx);
                    continue;
                }
                Either::Right(()) => {
                    w.ev(Ev::OpCancel { sender: sidx, op: opi });
                    w.sender_op_done(sidx);
                    w.ev(Ev::OpDone { sender: sidx, op: opi, res: OpResult::Cancelled });
                    w.sender_skip_next(sidx);
                    continue;
                }
            };
            let pid = rcpt.packet().packet_id.get();
            let Some(opj) = w.sender_next(sidx).await else {
                drop(rcpt);
                break;
            };
            let op2 = ops[opj].clone();
            w.ev(Ev::OpStart { sender: sidx, op: opj, brief: op2.brief() });
            let res = if op2 == AppOp::Release {
                match select(rcpt.release(), w.sender_cancelled(sidx)).await {
                    Either::Left(Ok(())) => {
                        OpResult::Ok(AckInfo { what: "pubcomp", pid, code: 0, sig: 0, codes: Vec::new() })
                    }
                    Either::Left(Err(e)) => OpResult::Err(err_str(&e)),
                    Either::Right(()) => {
                        w.ev(Ev::OpCancel { sender: sidx, op: opj });
                        OpResult::Cancelled
                    }
                }
            } else if op2 == AppOp::DropRelease {
                drop(rcpt.release());
                w.fault(0, "cancel_unpolled", 3);
                OpResult::Ok(AckInfo { what: "receipt-dropped", pid, code: 0, sig: 0, codes: Vec::new() })
            } else {
                drop(rcpt);
                OpResult::Ok(AckInfo { what: "receipt-dropped", pid, code: 0, sig: 0, codes: Vec::new() })
            };
            w.sender_op_done(sidx);
            w.ev(Ev::OpDone { sender: sidx, op: opj, res });
            continue;
        }
        if let AppOp::Unpolled { what } = &op {
            let payload = Bytes::from(make_payload(op_tag(sidx, opi), 3));
            match what {
                0 => drop(sink.ready()),
                1 => drop(sink.publish(op_topic(sidx, opi)).send_at_least_once(payload)),
                _ => drop(sink.publish(op_topic(sidx, opi)).send_exactly_once(payload)),
            }
            w.fault(0, "cancel_unpolled", u64::from(*what));
            w.ev(Ev::OpCancel { sender: sidx, op: opi });
            w.sender_op_done(sidx);
            w.ev(Ev::OpDone { sender: sidx, op: opi, res: OpResult::Cancelled });
            continue;
        }
        let fut = exec_op(&w, sidx, opi, &op, &sink);
        // Two ways of cancelling: `select(op, cancel)` polls the operation once more before it is dropped,
        // `select(cancel, op)` drops it as it is - a waiter that has just been given its wake-up is then
        // dropped without having run (a task abort or a timeout firing first look like this).
        let res = if (sidx + opi) % 2 == 0 {
            match select(fut, w.sender_cancelled(sidx)).await {
                Either::Left(r) => r,
                Either::Right(()) => {
                    w.ev(Ev::OpCancel { sender: sidx, op: opi });
                    OpResult::Cancelled
                }
            }
        } else {
            match select(w.sender_cancelled(sidx), fut).await {
                Either::Right(r) => r,
                Either::Left(()) => {
                    w.ev(Ev::OpCancel { sender: sidx, op: opi });
                    OpResult::Cancelled
                }
            }
        };
        w.sender_op_done(sidx);
        w.ev(Ev::OpDone { sender: sidx, op: opi, res });
    }
}

fn ack_info(what: &'static str, a: &codec::PublishAck) -> OpResult {
    OpResult::Ok(AckInfo {
        what,
        pid: a.packet_id.get(),
        code: a.reason_code as u8,
        sig: crate::common::user_props_sig(&a.properties, a.reason_string.as_ref()),
        codes: Vec::new(),
    })
}

async fn exec_op(
    w: &Rc<World>,
    sidx: usize,
    opi: usize,
    op: &AppOp,
    sink: &v5::MqttSink,
) -> OpResult {
    let topic = op_topic(sidx, opi);
    let tag = op_tag(sidx, opi);
    match op {
        AppOp::PubQ0 { len } => {
            let r = sink.publish(topic).send_at_most_once(Bytes::from(make_payload(tag, *len as usize)));
            match r {
                Ok(()) => OpResult::Ok(AckInfo::none("sent")),
                Err(e) => OpResult::Err(err_str(&e)),
            }
        }
        AppOp::PubQ0Pid { len, pid } => {
            match sink.publish(topic).packet_id(*pid).send_at_most_once(Bytes::from(make_payload(tag, *len as usize))) {
                Ok(()) => OpResult::Ok(AckInfo::none("sent")),
                Err(e) => OpResult::Err(err_str(&e)),
            }
        }
        AppOp::PubQ1 { len, pid } => {
            let mut b = sink.publish(topic);
            if let Some(p) = pid {
                b = b.packet_id(*p);
            }
            match b.send_at_least_once(Bytes::from(make_payload(tag, *len as usize))).await {
                Ok(a) => ack_info("puback", &a),
                Err(e) => OpResult::Err(err_str(&e)),
            }
        }
        AppOp::PubQ1Nb { len, pid } => {
            // the non-blocking send panics on a sink that is not ready: wait for readiness first
            while sink.is_open() && !sink.is_ready() {
                if !sink.ready().await {
                    break;
                }
            }
            if sink.is_open() && !sink.is_ready() {
                return OpResult::Err("Disconnected".into());
            }
            // the id the library would pick is not reported by this API: the caller always chooses
            let pid = pid.unwrap_or(200 + (sidx * 16 + opi) as u16);
            let mark = w.cb_mark();
            let b = sink.publish(topic).packet_id(pid);
            match b.send_at_least_once_no_block(Bytes::from(make_payload(tag, *len as usize))) {
                Ok(()) => {
                    let (code, sig, disc) = w.cb_wait(pid, mark).await;
                    if disc {
                        OpResult::Err("Disconnected".into())
                    } else {
                        OpResult::Ok(AckInfo { what: "puback", pid, code, sig, codes: Vec::new() })
                    }
                }
                Err(e) => OpResult::Err(err_str(&e)),
            }
        }
        AppOp::PubQ2 { .. } | AppOp::Release | AppOp::DropReceipt | AppOp::DropRelease | AppOp::Unpolled { .. } => OpResult::Err("no-receipt".into()),
        AppOp::Subscribe { n, pid } => {
            let mut b = sink.subscribe(None);
            if let Some(p) = pid {
                b = b.packet_id(*p);
            }
            for i in 0..*n {
                b = b.topic_filter(
                    ByteString::from(format!("s{sidx}/o{opi}/f{i}")),
                    codec::SubscriptionOptions {
                        qos: codec::QoS::AtLeastOnce,
                        no_local: false,
                        retain_as_published: false,
                        retain_handling: codec::RetainHandling::AtSubscribe,
                    },
                );
            }
            match b.send().await {
                Ok(a) => OpResult::Ok(AckInfo {
                    what: "suback",
                    pid: a.packet_id.get(),
                    code: 0,
                    sig: crate::common::user_props_sig(&a.properties, a.reason_string.as_ref()),
                    codes: a.status.iter().map(|c| *c as u8).collect(),
                }),
                Err(e) => OpResult::Err(err_str(&e)),
            }
        }
        AppOp::Unsubscribe { n, pid } => {
            let mut b = sink.unsubscribe();
            if let Some(p) = pid {
                b = b.packet_id(*p);
            }
            for i in 0..*n {
                b = b.topic_filter(ByteString::from(format!("s{sidx}/o{opi}/f{i}")));
            }
            match b.send().await {
                Ok(a) => OpResult::Ok(AckInfo {
                    what: "unsuback",
                    pid: a.packet_id.get(),
                    code: 0,
                    sig: crate::common::user_props_sig(&a.properties, a.reason_string.as_ref()),
                    codes: a.status.iter().map(|c| *c as u8).collect(),
                }),
                Err(e) => OpResult::Err(err_str(&e)),
            }
        }
        AppOp::Ready => {
            let ok = sink.ready().await;
            if ok { OpResult::Ok(AckInfo::none("ready")) } else { OpResult::Err("ready:false".into()) }
        }
        AppOp::StreamQ1 { size, chunks, pid } => {
            let mut b = sink.publish(topic);
            if let Some(p) = pid {
                b = b.packet_id(*p);
            }
            let (fut, pl) = b.stream_at_least_once(*size);
            let data = make_payload(tag, chunks.iter().map(|c| *c as usize).sum());
            let chunks = chunks.clone();
            let w2 = w.clone();
            let feeder = async move {
                let mut off = 0usize;
                let mut res: Result<(), String> = Ok(());
                for c in chunks {
                    w2.sender_permit(sidx).await;
                    let piece = Bytes::copy_from_slice(&data[off..off + c as usize]);
                    off += c as usize;
                    if let Err(e) = pl.send(piece).await {
                        res = Err(err_str(&e));
                        break;
                    }
                }
                drop(pl);
                res
            };
            let (r1, r2) = join(fut, feeder).await;
            match (r1, r2) {
                (Ok(a), Ok(())) => ack_info("puback", &a),
                (Ok(a), Err(e)) => {
                    w.ev(Ev::Note { what: format!("stream feeder error after ack: {e}") });
                    ack_info("puback", &a)
                }
                (Err(e), Ok(())) => OpResult::Err(err_str(&e)),
                (Err(e), Err(e2)) => OpResult::Err(format!("{}|{}", err_str(&e), e2)),
            }
        }
        AppOp::StreamQ0 { size, chunks } => match sink.publish(topic).stream_at_most_once(*size) {
            Ok(pl) => {
                let data = make_payload(tag, chunks.iter().map(|c| *c as usize).sum());
                let mut off = 0usize;
                let mut res = OpResult::Ok(AckInfo::none("streamed"));
                for c in chunks {
                    w.sender_permit(sidx).await;
                    let piece = Bytes::copy_from_slice(&data[off..off + *c as usize]);
                    off += *c as usize;
                    if let Err(e) = pl.send(piece).await {
                        res = OpResult::Err(err_str(&e));
                        break;
                    }
                }
                drop(pl);
                res
            }
            Err(e) => OpResult::Err(err_str(&e)),
        },
        AppOp::BadTopicTooLong { qos } => {
            let long = ByteString::from("x".repeat(70_000));
            match qos {
                0 => match sink.publish(long).send_at_most_once(Bytes::from_static(b"zz")) {
                    Ok(()) => OpResult::Ok(AckInfo::none("sent")),
                    Err(e) => OpResult::Err(err_str(&e)),
                },
                _ => match sink.publish(long).send_at_least_once(Bytes::from_static(b"zz")).await {
                    Ok(a) => ack_info("puback", &a),
                    Err(e) => OpResult::Err(err_str(&e)),
                },
            }
        }
        AppOp::BadSubscribe { unsub } => {
            let long = ByteString::from("y".repeat(70_000));
            if *unsub {
                match sink.unsubscribe().topic_filter(long).send().await {
                    Ok(_) => OpResult::Ok(AckInfo::none("unsuback")),
                    Err(e) => OpResult::Err(err_str(&e)),
                }
            } else {
                let opts = codec::SubscriptionOptions {
                    qos: codec::QoS::AtLeastOnce,
                    no_local: false,
                    retain_as_published: false,
                    retain_handling: codec::RetainHandling::AtSubscribe,
                };
                match sink.subscribe(None).topic_filter(long, opts).send().await {
                    Ok(_) => OpResult::Ok(AckInfo::none("suback")),
                    Err(e) => OpResult::Err(err_str(&e)),
                }
            }
        }
        AppOp::Close => {
            sink.close();
            OpResult::Ok(AckInfo::none("close"))
        }
        AppOp::CloseReason(code) => {
            let rc = codec::DisconnectReasonCode::try_from(*code).unwrap_or(codec::DisconnectReasonCode::UnspecifiedError);
            sink.close_with_reason(codec::Disconnect::new(rc));
            OpResult::Ok(AckInfo::none("close_with_reason"))
        }
        AppOp::CloseNoReason => {
            sink.close_with_no_reason();
            OpResult::Ok(AckInfo::none("close_with_no_reason"))
        }
        AppOp::ForceClose => {
            sink.force_close();
            OpResult::Ok(AckInfo::none("force_close"))
        }
        AppOp::CloseTwice(code) => {
            let rc = codec::DisconnectReasonCode::try_from(*code).unwrap_or(codec::DisconnectReasonCode::UnspecifiedError);
            sink.close_with_reason(codec::Disconnect::new(rc));
            sink.close();
            OpResult::Ok(AckInfo::none("close_twice"))
        }
    }
}

#[allow(dead_code)]
fn _unused(_: NonZeroU32) {}

// ------------------------------------------------------------------------------------------
// client role

fn seen_of_pkt(pk: &codec::Publish, route: &str) -> PubSeen {
    PubSeen {
        topic: pk.topic.to_string(),
        qos: pk.qos as u8,
        dup: pk.dup,
        retain: pk.retain,
        pid: pk.packet_id.map(NonZeroU16::get),
        declared_len: pk.payload_size as usize,
        props_sig: props_sig_v5(&pk.properties),
        alias: pk.properties.topic_alias.map(NonZeroU16::get),
        route: route.to_string(),
    }
}

pub async fn client_proto_handler(
    w: Rc<World>,
    msg: v5::client::ProtocolMessage,
) -> Result<v5::client::ProtocolMessageAck, AppErr> {
    match msg {
        v5::client::ProtocolMessage::Publish(p) => {
            let seen = seen_of_pkt(p.packet(), "control");
            let outcome = crate::app_v3::gated_publish!(w, 0, seen, p);
            match outcome {
                Outcome::Ok => Ok(p.ack(codec::PublishAckReason::Success)),
                // a failure of a QoS 0 message cannot be expressed as a negative acknowledgement
                Outcome::Neg(_) if p.packet().packet_id.is_none() => Err(AppErr::Fatal),
                Outcome::Neg(c) => match codec::PublishAckReason::try_from(c) {
                    Ok(rc) => Ok(p.ack(rc)),
                    Err(_) => Err(AppErr::Fatal),
                },
                _ => Err(AppErr::Fatal),
            }
        }
        other => {
            let (brief, pid) = match &other {
                v5::client::ProtocolMessage::PublishRelease(r) => {
                    (format!("PUBREL #{}", r.packet().packet_id), Some(r.packet().packet_id.get()))
                }
                v5::client::ProtocolMessage::Disconnect(d) => {
                    (format!("DISCONNECT c={:?}", d.packet().reason_code), None)
                }
                v5::client::ProtocolMessage::Ping(_) => ("PINGREQ".to_string(), None),
                v5::client::ProtocolMessage::Publish(_) => unreachable!(),
            };
            let (gid, imm) = w.gate_enter(0, GateKind::Proto, GateDesc::Proto { brief, pid });
            let _guard = GateGuard { w: w.clone(), id: gid };
            let outcome = match imm {
                Some(o) => o,
                None => w.gate_wait(gid).await,
            };
            w.gate_exit(gid, outcome.clone());
            match outcome {
                Outcome::Ok | Outcome::Neg(_) => Ok(other.ack()),
                Outcome::Disconnect(code) => {
                    let rc = codec::DisconnectReasonCode::try_from(code)
                        .unwrap_or(codec::DisconnectReasonCode::UnspecifiedError);
                    Ok(other.disconnect(codec::Disconnect::new(rc)))
                }
                _ => Err(AppErr::Fatal),
            }
        }
    }
}

pub async fn run_client(w: Rc<World>, plan: Rc<Plan>) {
    let cfg: SharedCfg = shared_cfg(&plan.cfg);
    let (cid, wire) = w.add_wire();
    let cfg2 = cfg.clone();
    let connector = v5::client::MqttConnector::<String, _>::new().connector(fn_service(
        move |_: ntex_net::connect::Connect<String>| {
            let io = Io::new(wire.stream(), cfg2.clone());
            async move { Ok::<_, ntex_net::connect::ConnectError>(io) }
        },
    ));
    let svc = match connector.pipeline(cfg.clone()).await {
        Ok(s) => s,
        Err(e) => {
            *w.setup_error.borrow_mut() = Some(format!("client connector: {e:?}"));
            return;
        }
    };
    let c = &plan.cfg;
    let (ka, rm, mps, tam) = (c.client_keepalive_s, c.client_receive_max, c.client_max_packet_size, c.client_topic_alias_max);
    let req = v5::client::Connect::new("sim".to_string()).client_id("c0").packet(move |p| {
        p.keep_alive = ka;
        p.receive_max = NonZeroU16::new(rm);
        p.max_packet_size = mps.and_then(NonZeroU32::new);
        p.topic_alias_max = tam;
    });
    let (w2, plan2) = (w.clone(), plan.clone());
    ntex_util::spawn(async move {
        let (w, plan) = (w2, plan2);
        let client = match svc.call(req).await {
            Ok(c) => c,
            Err(e) => {
                let s = format!("connect-err:{e:?}");
                w.conn_done.borrow_mut()[cid] = Some(s.clone());
                w.ev(Ev::ConnDone { conn: cid, res: s });
                return;
            }
        };
        start_senders(&w, &plan, client.sink());
        let (wa, wb) = (w.clone(), w.clone());
        let gated = plan.cfg.ctl_gated;
        if !plan.cfg.use_router {
            w.ev(Ev::Session { conn: cid });
        }
        let res = if plan.cfg.use_router {
            let (w1, w2, w3) = (w.clone(), w.clone(), w.clone());
            client
                .resource("a", fn_service(move |p: v5::Publish| publish_handler(w1.clone(), 0, p, "res:a")))
                .resource("b/{x}", fn_service(move |p: v5::Publish| publish_handler(w2.clone(), 0, p, "res:b")))
                .resource("t/{id}", fn_service(move |p: v5::Publish| publish_handler(w3.clone(), 0, p, "res:t")))
                .start(fn_service(move |m: v5::client::ProtocolMessage| client_proto_handler(wa.clone(), m)))
                .await
                .map_err(|e| format!("{e:?}"))
        } else {
            client
                .start_with_control(
                    crate::common::GSvc { w: wa.clone(), conn: 0, f: move |m: v5::client::ProtocolMessage| client_proto_handler(wa.clone(), m) },
                    fn_service(move |m: Control<AppErr>| control_handler(wb.clone(), 0, gated, m, None)),
                )
                .await
                .map_err(|e| format!("{e:?}"))
        };
        let s = match res {
            Ok(()) => "ok".to_string(),
            Err(e) => format!("err:{e}"),
        };
        w.conn_done.borrow_mut()[cid] = Some(s.clone());
        w.ev(Ev::ConnDone { conn: cid, res: s });
    });
}
