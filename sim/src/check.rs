//! `dst check <property>`: seeded search over the property's families, minimisation of every
//! violation found, replay files, known-finding handling and the evidence file.
use std::collections::BTreeMap;
use std::path::{Path, PathBuf};
use std::time::Instant;

use serde_json::{Value, json};

use crate::batch::{BatchOut, Found};
use crate::families::Family;
use crate::oracle::{Violation, check_all};
use crate::runner::{Mode, RunOut, run_one};

pub struct PropSpec {
    pub id: &'static str,
    pub level: &'static str,
    /// (family, share of the run budget in percent)
    pub families: Vec<(Family, u32)>,
    pub quick_runs: u64,
    pub thorough_runs: u64,
    pub rule: &'static str,
    pub nontrivial: fn(&RunOut) -> bool,
    pub assumptions: Vec<&'static str>,
}

/// Where evidence and replay files go: /verif, or (VERIF_SCRATCH=1: runs against a deliberately
/// modified tree, e.g. bin/seedcheck) /verif/target/scratch so that committed evidence is untouched.
pub fn out_dir() -> PathBuf {
    if std::env::var("VERIF_SCRATCH").is_ok_and(|v| v == "1") {
        let d = verif_dir().join("target").join("scratch");
        let _ = std::fs::create_dir_all(&d);
        d
    } else {
        verif_dir()
    }
}

pub fn verif_dir() -> PathBuf {
    std::env::var("VERIF_DIR").map_or_else(|_| PathBuf::from("/verif"), PathBuf::from)
}

fn has_key(out: &RunOut, key: &str) -> bool {
    check_all(out).iter().any(|v| v.key == key)
}

/// Minimise a failing choice stream while the same violation key persists.
pub fn shrink(family: Family, choices: &[u32], key: &str, budget: usize) -> (Vec<u32>, usize) {
    let mut cur: Vec<u32> = choices.to_vec();
    let mut used = 0usize;
    let mut test = |c: &[u32], used: &mut usize| -> bool {
        *used += 1;
        let out = run_one(family, Mode::Replay(c.to_vec()));
        has_key(&out, key)
    };
    // trailing zeros are implied
    while cur.last() == Some(&0) {
        cur.pop();
    }
    // 1. delete blocks (ddmin style)
    let mut block = cur.len().div_ceil(2).max(1);
    while block >= 1 && used < budget {
        let mut i = 0;
        let mut progressed = false;
        while i < cur.len() && used < budget {
            let end = (i + block).min(cur.len());
            let mut cand = cur.clone();
            cand.drain(i..end);
            if test(&cand, &mut used) {
                cur = cand;
                progressed = true;
            } else {
                i += block;
            }
        }
        if block == 1 && !progressed {
            break;
        }
        if !progressed || block > 1 {
            block /= 2;
        }
        if block == 0 {
            break;
        }
    }
    // 2. zero individual choices, 3. lower values
    let mut i = 0;
    while i < cur.len() && used < budget {
        if cur[i] != 0 {
            let mut cand = cur.clone();
            cand[i] = 0;
            if test(&cand, &mut used) {
                cur = cand;
            } else if cur[i] > 1 {
                let mut cand = cur.clone();
                cand[i] = cur[i] / 2;
                if test(&cand, &mut used) {
                    cur = cand;
                    continue;
                }
            }
        }
        i += 1;
    }
    while cur.last() == Some(&0) {
        cur.pop();
    }
    (cur, used)
}

pub fn load_known() -> Vec<(String, String, String, String)> {
    // (property, key, summary, status)
    let p = verif_dir().join("KNOWN_FINDINGS.json");
    let Ok(txt) = std::fs::read_to_string(&p) else {
        return Vec::new();
    };
    let Ok(v) = serde_json::from_str::<Value>(&txt) else {
        return Vec::new();
    };
    let mut out = Vec::new();
    if let Some(arr) = v.get("findings").and_then(Value::as_array) {
        for f in arr {
            out.push((
                f.get("property").and_then(Value::as_str).unwrap_or("").to_string(),
                f.get("key").and_then(Value::as_str).unwrap_or("").to_string(),
                f.get("summary").and_then(Value::as_str).unwrap_or("").to_string(),
                f.get("status").and_then(Value::as_str).unwrap_or("open").to_string(),
            ));
        }
    }
    out
}

pub fn write_replay(
    prop: &str,
    family: Family,
    v: &Violation,
    seed: u64,
    idx: u64,
    base_seed: u64,
    choices: &[u32],
    out: &RunOut,
) -> PathBuf {
    let dir = out_dir().join("replays");
    let _ = std::fs::create_dir_all(&dir);
    let mut h = crate::rng::Fnv::default();
    h.write_str(&v.key);
    let name = format!("{}-{}-{:08x}.json", prop, seed, h.0 as u32);
    let path = dir.join(name);
    let trace: Vec<String> = out
        .hist
        .iter()
        .filter(|e| !matches!(e.ev, crate::world::Ev::EpWrite { .. }))
        .map(crate::report::ev_line)
        .collect();
    let j = json!({
        "property": prop,
        "family": family.name(),
        "violation": { "key": v.key, "message": v.msg, "at_seq": v.at_seq },
        "base_seed": base_seed,
        "run_index": idx,
        "run_seed": seed,
        "choices": choices,
        "digest": format!("{:016x}", out.digest),
        "config": {
            "role": out.plan.role.name(),
            "sched": format!("{:?}", out.plan.sched),
            "p_ext": out.plan.p_ext,
            "cut": format!("{:?}", out.plan.cut),
            "ending": format!("{:?}", out.plan.ending),
            "cfg": format!("{:?}", out.plan.cfg),
            "senders": format!("{:?}", out.plan.senders),
            "faults": format!("{:?}", out.plan.faults),
        },
        "trace": trace,
        "replay_cmd": format!("bin/check replay {}", path.display()),
    });
    let _ = std::fs::write(&path, serde_json::to_string_pretty(&j).unwrap());
    path
}

/// Re-run a replay file. Returns (reproduced same key, same digest, message).
pub fn replay_file(path: &Path) -> Result<(bool, bool, String, String), String> {
    let txt = std::fs::read_to_string(path).map_err(|e| format!("{e}"))?;
    let v: Value = serde_json::from_str(&txt).map_err(|e| format!("{e}"))?;
    let fam = Family::parse(v["family"].as_str().unwrap_or("")).ok_or("unknown family")?;
    let key = v["violation"]["key"].as_str().unwrap_or("").to_string();
    let prop = v["property"].as_str().unwrap_or("").to_string();
    let choices: Vec<u32> =
        v["choices"].as_array().ok_or("no choices")?.iter().map(|x| x.as_u64().unwrap_or(0) as u32).collect();
    let out = run_one(fam, Mode::Replay(choices));
    let vs = check_all(&out);
    let same_key = vs.iter().any(|x| x.key == key);
    let same_digest = format!("{:016x}", out.digest) == v["digest"].as_str().unwrap_or("");
    let msg = vs.iter().find(|x| x.key == key).map(|x| x.msg.clone()).unwrap_or_default();
    for line in out.hist.iter().map(crate::report::ev_line) {
        eprintln!("{line}");
    }
    eprintln!("gates: {:?}", out.gates);
    eprintln!("senders: {:?}", out.senders);
    eprintln!("runnable_left={} armed_left={} conn_done={:?}", out.runnable_left, out.armed_left, out.conn_done);
    Ok((same_key, same_digest, prop, format!("{key}: {msg}")))
}

pub struct CheckResult {
    pub exit: i32,
}

pub fn run_check(spec: &PropSpec, tier: &str, base_seed: u64, threads: usize) -> CheckResult {
    let t0 = Instant::now();
    let total_runs = if tier == "thorough" { spec.thorough_runs } else { spec.quick_runs };
    let wall_limit = if tier == "thorough" { 900.0 } else { 240.0 };
    let mut merged = BatchOut::default();
    let mut fam_runs: BTreeMap<&'static str, u64> = BTreeMap::new();
    // (share 0: a family of few, long runs - 16 in the thorough tier, four in the quick tier; they run on
    // threads of their own next to the other families, because one run takes seconds)
    let mut long_jobs = Vec::new();
    for (fam, share) in &spec.families {
        if *share == 0 {
            let (id, fam, nt) = (spec.id, *fam, spec.nontrivial);
            let runs = if tier == "thorough" { 16 } else { 4 };
            long_jobs.push((fam, std::thread::spawn(move || crate::batch::run_batch_auto(id, fam, base_seed, runs, runs as usize, wall_limit, nt))));
        }
    }
    for (fam, share) in &spec.families {
        if *share == 0 {
            continue;
        }
        let runs = (total_runs * u64::from(*share) / 100).max(1);
        let o = match crate::batch::run_batch_auto(spec.id, *fam, base_seed, runs, threads, wall_limit, spec.nontrivial) {
            Ok(o) => o,
            Err(e) => {
                println!("HARNESS-ERROR {e}");
                return CheckResult { exit: 2 };
            }
        };
        *fam_runs.entry(fam.name()).or_insert(0) += o.evaluations;
        crate::batch::merge(&mut merged, o);
    }

    for (fam, job) in long_jobs {
        match job.join() {
            Ok(Ok(o)) => {
                *fam_runs.entry(fam.name()).or_insert(0) += o.evaluations;
                crate::batch::merge(&mut merged, o);
            }
            Ok(Err(e)) => {
                println!("HARNESS-ERROR {e}");
                return CheckResult { exit: 2 };
            }
            Err(_) => {
                println!("HARNESS-ERROR long-history batch panicked");
                return CheckResult { exit: 2 };
            }
        }
    }

    // triage
    let known = load_known();
    let mut exit = 0;
    let mut n_viol = 0u64;
    let mut other_props: BTreeMap<String, u64> = BTreeMap::new();
    let mut known_hit: Vec<String> = Vec::new();
    let mut reports: Vec<Value> = Vec::new();
    let found: Vec<(String, Found)> = merged.found.iter().map(|(k, f)| (k.clone(), f.clone())).collect();
    for (key, f) in found {
        let Some(ex) = f.example.clone() else { continue };
        if ex.prop == "HARNESS" {
            eprintln!("HARNESS-ERROR {key}: {} (run index {}, seed {})", ex.msg, f.first_idx, f.first_seed);
            exit = 2;
            continue;
        }
        if ex.prop != spec.id {
            *other_props.entry(format!("{}:{}", ex.prop, key)).or_insert(0) += f.count;
            continue;
        }
        if let Some(k) = known.iter().find(|k| k.1 == key && k.0 == spec.id && k.3 == "open") {
            println!("KNOWN-FINDING: property={} {}: {} ({} runs)", spec.id, key, k.2, f.count);
            known_hit.push(key.clone());
            continue;
        }
        n_viol += f.count;
        let fam = f.family.unwrap();
        // reproduce, minimise, write the replay file
        let first = run_one(fam, Mode::Replay(f.choices.clone()));
        if !has_key(&first, &key) {
            eprintln!("HARNESS-ERROR violation {key} did not reproduce from its recorded choices (seed {})", f.first_seed);
            exit = 2;
            continue;
        }
        // (runs of the long-history family take seconds each: a handful of shrink attempts only)
        let budget = if f.choices.len() > 20_000 { 12 } else if tier == "thorough" { 3000 } else { 1200 };
        let (min, used) = shrink(fam, &f.choices, &key, budget);
        let out = run_one(fam, Mode::Replay(min.clone()));
        let v = check_all(&out).into_iter().find(|x| x.key == key).unwrap_or(ex.clone());
        let path = write_replay(spec.id, fam, &v, f.first_seed, f.first_idx, base_seed, &min, &out);
        println!("VIOLATION property={} replay={}", spec.id, path.display());
        println!("  key={key} runs={} minimised {} -> {} choices in {} replays: {}", f.count, f.choices.len(), min.len(), used, v.msg);
        reports.push(json!({"key": key, "runs": f.count, "message": v.msg, "replay": path.display().to_string()}));
        if exit == 0 {
            exit = 1;
        }
    }

    // evidence
    let wall = t0.elapsed().as_secs_f64();
    let runs_per_hour = if wall > 0.0 { (merged.evaluations as f64 / wall * 3600.0) as u64 } else { 0 };
    let samples: Vec<Value> = merged.samples.iter().map(|s| Value::String(s.clone())).collect();
    let ev = json!({
        "property_id": spec.id,
        "tier": tier,
        "seed": base_seed,
        "level": spec.level,
        "coverage": {
            "evaluations": merged.evaluations,
            "distinct_nontrivial": merged.nontrivial.len(),
            "rule": spec.rule,
            "samples": samples,
            "distinct_interleavings": merged.signatures.len(),
            "runs_per_family": fam_runs,
            "runs_per_role": merged.by_role,
            "runs_per_hour": runs_per_hour,
            "simulated_time_s": merged.sim_ms / 1000,
            "simulator_steps": merged.steps,
            "task_polls": merged.task_polls,
            "faults_fired": merged.faults,
            "probes": merged.probes,
            "known_findings_hit": known_hit,
            "violations_of_other_properties_seen": other_props,
            "violation_reports": reports,
            "components_real": ["ntex-mqtt (all of /repo/src, unmodified)", "ntex-io Io/buffers/filters/timers", "ntex-service", "ntex-codec", "ntex-bytes", "ntex-util timer wheel, channels, services", "ntex-rt Runtime + async-task"],
            "components_stub": ["transport (SimStream over ntex_io::IoStream)", "clock source (simclock in vendored ntex-util)", "run-queue picker/driver (SimDriver over ntex_rt::Driver; vendored ntex-rt exposes the queue)", "remote peer (SimPeer on refcodec)", "application services (gated stubs)"],
        },
        "assumptions": spec.assumptions,
        "wall_s": wall,
        "violations": n_viol,
    });
    let mut ev = ev;
    if let Some(n) = fam_runs.get("C07X") {
        let per = crate::families::C07X_PER_BASE;
        ev["coverage"]["fault_enumeration"] = json!({
            "family": "C07X",
            "fault_points_executed": n,
            "fault_points_per_base_scenario": per,
            "base_scenarios_fully_enumerated": n / per,
            "grid": {
                "peer FIN / peer RST / write error at simulator step": format!("1..{}", crate::families::C07X_STEPS),
                "peer stream ends (FIN / RST) after byte offset": format!("0..{}", crate::families::C07X_BYTES - 1),
                "write fails after output byte offset": format!("0..{}", crate::families::C07X_OUT - 1),
            },
            "points_that_fired": {
                "positioned_at_a_byte_of_the_peer_stream": merged.probes.get("close-at-byte"),
                "positioned_at_a_byte_of_the_output": merged.probes.get("wr-err-at-byte"),
            },
        });
    }
    if let Some(n) = fam_runs.get("C04X") {
        let per = crate::families::C04X_PER_SET;
        ev["coverage"]["completion_order_enumeration"] = json!({
            "family": "C04X",
            "points_executed": n,
            "points_per_request_set": per,
            "request_sets_fully_enumerated": n / per,
            "per_request_set": "4 roles x sum over n=2..4 of n! completion orders x 2^n immediate/deferred masks",
        });
    }
    if let Some(n) = fam_runs.get("C11X") {
        let total = crate::families::c11x_total();
        let le3 = crate::families::c11x_total_le3();
        ev["coverage"]["history_enumeration"] = json!({
            "family": "C11X",
            "points_executed": n,
            "points_in_the_enumeration": total,
            "points_covering_every_history_of_length_le_3": le3,
            "all_histories_of_length_le_3_executed": *n >= le3,
            "all_histories_of_length_le_4_executed": *n >= total,
            "complete_rounds_of_the_whole_enumeration": n / total,
            "alphabet": {"server roles": 10, "client roles": 6},
            "handler_modes": crate::families::C11X_MODES,
        });
    }
    if let Some(n) = fam_runs.get("C13X") {
        let le2 = crate::families::c13x_total_le(2);
        let le3 = crate::families::c13x_total_le(3);
        ev["coverage"]["event_sequence_enumeration"] = json!({
            "family": "C13X",
            "points_executed": n,
            "points_covering_every_sequence_of_length_le_2": le2,
            "points_covering_every_sequence_of_length_le_3": le3,
            "all_sequences_of_length_le_2_executed": *n >= le2,
            "all_sequences_of_length_le_3_executed": *n >= le3,
            "points_in_the_enumeration_up_to_length_4": crate::families::c13x_total(),
            "letters": crate::families::C13X_LETTERS,
            "configurations": crate::families::C13X_CONFIGS,
            "letters_are": "start next operation of sender 0..2, drop pending operation of sender 0..2, peer acknowledges, write back-pressure on, off; start / drop also 0, 1, 2 task polls behind the previous letter",
        });
    }
    if let Some(n) = fam_runs.get("C16X") {
        let total = crate::families::c16x_total();
        let le2 = crate::families::c16x_total_le2();
        ev["coverage"]["sequence_enumeration"] = json!({
            "family": "C16X",
            "points_executed": n,
            "points_in_the_enumeration": total,
            "points_covering_every_sequence_of_length_le_2": le2,
            "all_sequences_of_length_le_2_executed": *n >= le2,
            "all_sequences_of_length_le_3_executed": *n >= total,
            "complete_rounds_of_the_whole_enumeration": n / total,
            "alphabet": {"MQTT 5": crate::families::c16x_alphabet_len(crate::refcodec::Ver::V5), "MQTT 3.1.1": crate::families::c16x_alphabet_len(crate::refcodec::Ver::V3)},
            "roles": 4,
            "application_states": crate::families::C16X_STATES,
        });
    }
    let dir = out_dir().join("evidence");
    let _ = std::fs::create_dir_all(&dir);
    let _ = std::fs::write(dir.join(format!("{}.json", spec.id)), serde_json::to_string_pretty(&ev).unwrap());
    println!(
        "{} {}: runs={} distinct={} nontrivial={} faults={:?} wall={:.1}s violations={} exit={}",
        spec.id,
        tier,
        merged.evaluations,
        merged.signatures.len(),
        merged.nontrivial.len(),
        merged.faults,
        wall,
        n_viol,
        exit
    );
    CheckResult { exit }
}
