//! Scenario families: generators that draw a `Plan` (knobs, peer script, application script,
//! fault profile) from the choice stream. One family per property, plus shared building blocks.
use crate::choice::Choices;
use crate::plan::*;
use crate::refcodec::{self as rc, Ack, Connect, Pkt, PropVal, Props, Ver};
use crate::world::Role;

#[derive(Clone, Copy, Debug, PartialEq, Eq, PartialOrd, Ord, Hash)]
pub enum Family {
    C03,
    C04,
}

impl Family {
    pub fn parse(s: &str) -> Option<Family> {
        Some(match s {
            "C03" => Family::C03,
            "C04" => Family::C04,
            _ => return None,
        })
    }
    pub fn name(self) -> &'static str {
        match self {
            Family::C03 => "C03",
            Family::C04 => "C04",
        }
    }
}

pub const ALL_FAMILIES: &[Family] = &[Family::C03, Family::C04];

pub fn generate(f: Family, ch: &mut Choices) -> Plan {
    match f {
        Family::C03 => gen_c03(ch),
        Family::C04 => gen_c04(ch),
    }
}

// ------------------------------------------------------------------------------------------
// building blocks

pub fn step(pkt: Pkt, ver: Ver, pre: Pre) -> PeerStep {
    PeerStep { pre, bytes: rc::encode(ver, &pkt), pkt: Some(pkt), corrupt: None, then_close: None }
}

pub fn adversarial_sched() -> bool {
    static ON: std::sync::OnceLock<bool> = std::sync::OnceLock::new();
    *ON.get_or_init(|| std::env::var("VERIF_ADVERSARIAL_SCHED").is_ok_and(|v| v == "1"))
}

pub fn base_plan(family: &'static str, role: Role, ch: &mut Choices) -> Plan {
    // Verdicts are only drawn from schedules the real runtime can produce: ntex-rt (and tokio's
    // LocalSet) run woken tasks in FIFO wake order, so the nondeterminism of a deployment is *when*
    // external events land between task polls, not which runnable task is picked.
    // VERIF_ADVERSARIAL_SCHED=1 enables the non-FIFO pickers for exploration only.
    let sched = if adversarial_sched() {
        match ch.weighted(&[40, 40, 20]) {
            0 => Sched::Fifo,
            1 => Sched::Random,
            _ => Sched::Pct,
        }
    } else {
        Sched::Fifo
    };
    let p_ext = *ch.pick(&[150u32, 0, 400, 700]);
    let cut = match ch.weighted(&[40, 40, 20]) {
        0 => Cut::All,
        1 => Cut::Random,
        _ => Cut::Boundary,
    };
    let ver = role.ver();
    Plan {
        family,
        role,
        sched,
        p_ext,
        cut,
        cfg: EpCfg::default(),
        peer: PeerPlan {
            connect: Connect::new(ver, "c0", 60_000),
            connack_code: 0,
            connack_props: Vec::new(),
            connack_session_present: false,
            script: Vec::new(),
            auto_ack: true,
            deviation: AckDeviation::None,
            deviation_at: 0,
            ack_codes: Vec::new(),
            pubcomp_any_order: false,
            long_acks: false,
        },
        senders: Vec::new(),
        p_immediate: 0,
        w_outcome: [1, 0, 0],
        w_payload: [1, 0, 0],
        w_proto: [1, 0, 0],
        w_ctl: [1, 0, 0],
        p_cancel: 0,
        faults: FaultPlan::default(),
        ending: Ending::Settle,
        max_steps: 6000,
        horizon_ms: 2_500,
        conns: 1,
    }
}

/// A random subset of PUBLISH properties a client may legally send (v5).
pub fn publish_props(ch: &mut Choices, tag: u32) -> Props {
    let mut p: Props = Vec::new();
    if ch.chance(1, 4) {
        p.push((1, PropVal::Byte(u8::from(ch.chance(1, 2)))));
    }
    if ch.chance(1, 4) {
        p.push((2, PropVal::U32(1 + tag)));
    }
    if ch.chance(1, 5) {
        p.push((3, PropVal::Str(format!("ct{tag}"))));
    }
    if ch.chance(1, 5) {
        p.push((8, PropVal::Str(format!("rt/{tag}"))));
    }
    if ch.chance(1, 5) {
        p.push((9, PropVal::Bin(vec![tag as u8, 0, 255, 7])));
    }
    let n = ch.choose(3);
    for i in 0..n {
        p.push((38, PropVal::Pair(format!("k{i}"), format!("v{tag}"))));
    }
    // properties may come in any order
    if p.len() > 1 && ch.chance(1, 2) {
        let k = ch.choose(p.len() as u32) as usize;
        p.rotate_left(k);
    }
    p
}

pub fn payload_len(ch: &mut Choices, min_chunk: u32) -> usize {
    match ch.weighted(&[30, 20, 20, 15, 10, 5]) {
        0 => ch.choose(20) as usize,
        1 => 0,
        2 => 100 + ch.choose(200) as usize,
        3 => (min_chunk as usize).saturating_sub(1) + ch.choose(3) as usize,
        4 => 2000 + ch.choose(3000) as usize,
        _ => 16_000 + ch.choose(2000) as usize,
    }
}

pub fn mk_publish(ver: Ver, ch: &mut Choices, idx: u32, qos: u8, pid: Option<u16>, len: usize) -> rc::Publish {
    rc::Publish {
        dup: qos > 0 && ch.chance(1, 8),
        qos,
        retain: ch.chance(1, 8),
        topic: format!("t/{idx}"),
        pid,
        props: if ver == Ver::V5 { publish_props(ch, idx) } else { Vec::new() },
        payload: crate::world::make_payload(1000 + idx, len),
    }
}

// ------------------------------------------------------------------------------------------
// C03: inbound PUBLISH handled once, acknowledged per QoS

fn gen_c03(ch: &mut Choices) -> Plan {
    let role = Role::S5;
    let mut plan = base_plan("C03", role, ch);
    let ver = role.ver();
    plan.cfg.min_chunk = *ch.pick(&[32 * 1024u32, 0, 4, 1024]);
    plan.cfg.max_payload_buf = *ch.pick(&[32 * 1024usize, 64, 1024]);
    plan.p_immediate = *ch.pick(&[0u32, 300, 1000, 600]);
    plan.w_outcome = *ch.pick(&[[1u32, 0, 0], [8, 2, 0], [8, 0, 1], [6, 2, 1]]);
    plan.w_payload = *ch.pick(&[[1u32, 0, 0], [3, 2, 0], [3, 1, 1]]);
    plan.ending = if ch.chance(1, 5) { Ending::Stop } else { Ending::Settle };

    let n = 1 + ch.choose(8);
    let mut pubrels: Vec<PeerStep> = Vec::new();
    let mut next_pid = 1u16;
    for i in 0..n {
        match ch.weighted(&[70, 10, 10, 10]) {
            0 => {
                let qos = ch.choose(3) as u8;
                let pid = if qos > 0 {
                    let p = next_pid;
                    next_pid += 1;
                    Some(p)
                } else {
                    None
                };
                let len = payload_len(ch, plan.cfg.min_chunk);
                let p = mk_publish(ver, ch, i, qos, pid, len);
                plan.peer.script.push(step(Pkt::Publish(p), ver, Pre::Connected));
                if qos == 2 {
                    let rel = step(Pkt::PubRel(Ack::ok(pid.unwrap())), ver, Pre::SawPubRec(pid.unwrap(), 1));
                    if ch.chance(1, 3) {
                        plan.peer.script.push(rel);
                    } else {
                        pubrels.push(rel);
                    }
                }
            }
            1 => plan.peer.script.push(step(Pkt::PingReq, ver, Pre::Connected)),
            2 => {
                let pid = next_pid;
                next_pid += 1;
                let s = rc::Subscribe { pid, props: Vec::new(), filters: vec![(format!("f/{i}"), 1), ("g/#".into(), 0)] };
                plan.peer.script.push(step(Pkt::Subscribe(s), ver, Pre::Connected));
            }
            _ => {
                let pid = next_pid;
                next_pid += 1;
                let s = rc::Unsubscribe { pid, props: Vec::new(), filters: vec![format!("f/{i}")] };
                plan.peer.script.push(step(Pkt::Unsubscribe(s), ver, Pre::Connected));
            }
        }
    }
    // remaining PUBRELs in a drawn order
    while !pubrels.is_empty() {
        let k = ch.choose(pubrels.len() as u32) as usize;
        plan.peer.script.push(pubrels.remove(k));
    }
    plan
}

fn gen_c04(ch: &mut Choices) -> Plan {
    gen_c03(ch)
}
