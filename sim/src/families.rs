//! Scenario families: generators that draw a `Plan` (knobs, peer script, application script,
//! fault profile) from the choice stream. One family per property, plus shared building blocks.
use crate::choice::Choices;
use crate::plan::*;
use crate::refcodec::{self as rc, Ack, Connect, Pkt, PropVal, Props, Ver};
use crate::world::Role;

#[derive(Clone, Copy, Debug, PartialEq, Eq, PartialOrd, Ord, Hash)]
pub enum Family {
    C02,
    C03,
    C04,
    /// C04 by enumeration: every completion order and every immediate / deferred mix of 2..4 requests
    C04X,
    C05,
    C06,
    /// C06 over a long history: more than 65 535 sends on one connection (the packet-identifier counter wraps)
    C06L,
    C07,
    /// C07 by fault enumeration: per base scenario every step x {FIN, RST, write error} and every
    /// byte offset of the peer's stream x {FIN, RST}
    C07X,
    C08,
    C10,
    /// C10 at connection level: streamed payloads through the real dispatcher and handler
    C10C,
    C11,
    /// C11 by enumeration: every history of length 1..4 over the id alphabet {1,2} x request kinds
    C11X,
    C12,
    C13,
    /// C13 / C05 by enumeration: every sequence of length 1..4 (5 in part) of external events - start / cancel an
    /// operation of one of three senders, peer acknowledgement, write back-pressure on / off - against the
    /// waiter queue, for windows of 1 and 2 and four sender kits
    C13X,
    C14,
    C15,
    C16,
    /// C16 by enumeration: every sequence of length 1..3 over the packet alphabet of the role, against
    /// five application states
    C16X,
    C17,
    C19,
    /// C19's send-window clause: outbound window = min(configured or handshake override, peer's Receive Maximum)
    C19W,
    /// C19's negotiated limits seen from the client: what the client announced in CONNECT is what it enforces
    /// on inbound traffic, whatever the broker's CONNACK announces for the other direction
    C19C,
    C20,
    /// C20 over a long simulated time: a live connection kept up for two hours of keep-alive periods
    C20L,
}

impl Family {
    pub fn parse(s: &str) -> Option<Family> {
        Some(match s {
            "C02" => Family::C02,
            "C10" => Family::C10,
            "C10C" => Family::C10C,
            "C03" => Family::C03,
            "C04" => Family::C04,
            "C04X" => Family::C04X,
            "C05" => Family::C05,
            "C06" => Family::C06,
            "C06L" => Family::C06L,
            "C07" => Family::C07,
            "C07X" => Family::C07X,
            "C08" => Family::C08,
            "C11" => Family::C11,
            "C11X" => Family::C11X,
            "C12" => Family::C12,
            "C13" => Family::C13,
            "C13X" => Family::C13X,
            "C14" => Family::C14,
            "C15" => Family::C15,
            "C16" => Family::C16,
            "C16X" => Family::C16X,
            "C17" => Family::C17,
            "C19" => Family::C19,
            "C19W" => Family::C19W,
            "C19C" => Family::C19C,
            "C20" => Family::C20,
            "C20L" => Family::C20L,
            _ => return None,
        })
    }
    pub fn name(self) -> &'static str {
        match self {
            Family::C02 => "C02",
            Family::C10 => "C10",
            Family::C10C => "C10C",
            Family::C03 => "C03",
            Family::C04 => "C04",
            Family::C04X => "C04X",
            Family::C05 => "C05",
            Family::C06 => "C06",
            Family::C06L => "C06L",
            Family::C07 => "C07",
            Family::C07X => "C07X",
            Family::C08 => "C08",
            Family::C11 => "C11",
            Family::C11X => "C11X",
            Family::C12 => "C12",
            Family::C13 => "C13",
            Family::C13X => "C13X",
            Family::C14 => "C14",
            Family::C15 => "C15",
            Family::C16 => "C16",
            Family::C16X => "C16X",
            Family::C17 => "C17",
            Family::C19 => "C19",
            Family::C19W => "C19W",
            Family::C19C => "C19C",
            Family::C20 => "C20",
            Family::C20L => "C20L",
        }
    }
}

pub const ALL_FAMILIES: &[Family] = &[
    Family::C02,
    Family::C10,
    Family::C10C,
    Family::C03,
    Family::C04,
    Family::C04X,
    Family::C05,
    Family::C06,
    Family::C06L,
    Family::C07,
    Family::C07X,
    Family::C08,
    Family::C11,
    Family::C11X,
    Family::C12,
    Family::C13,
    Family::C13X,
    Family::C14,
    Family::C15,
    Family::C16,
    Family::C16X,
    Family::C17,
    Family::C19,
    Family::C19W,
    Family::C19C,
    Family::C20,
    Family::C20L,
];

pub fn generate(f: Family, ch: &mut Choices) -> Plan {
    match f {
        // codec-level families are driven by codecsim::run, not by a connection plan
        Family::C02 | Family::C10 => base_plan(if f == Family::C02 { "C02" } else { "C10" }, Role::S5, ch),
        Family::C10C => gen_c10c(ch),
        Family::C03 => gen_c03(ch),
        Family::C04 => gen_c04(ch),
        Family::C04X => gen_c04x(ch),
        Family::C05 => gen_outbound(OutKind::C05, ch),
        Family::C06 => gen_outbound(OutKind::C06, ch),
        Family::C06L => gen_c06l(ch),
        Family::C07 => gen_c07(ch),
        Family::C07X => gen_c07x(ch),
        Family::C08 => gen_outbound(OutKind::C08, ch),
        Family::C11 => gen_c11(ch),
        Family::C11X => gen_c11x(ch),
        Family::C12 => gen_c12(ch),
        Family::C13 => gen_outbound(OutKind::C13, ch),
        Family::C13X => gen_c13x(ch),
        Family::C14 => gen_outbound(OutKind::C14, ch),
        Family::C15 => gen_c15(ch),
        Family::C16 => gen_c16(ch),
        Family::C16X => gen_c16x(ch),
        Family::C17 => gen_c17(ch),
        Family::C19 => gen_c19(ch),
        Family::C19W => gen_c19w(ch),
        Family::C19C => gen_c19c(ch),
        Family::C20 => gen_c20(ch),
        Family::C20L => gen_c20l(ch),
    }
}

// ------------------------------------------------------------------------------------------
// building blocks

pub fn step(pkt: Pkt, ver: Ver, pre: Pre) -> PeerStep {
    PeerStep { pre, bytes: rc::encode(ver, &pkt), pkt: Some(pkt), corrupt: None, then_close: None }
}

pub fn adversarial_sched() -> bool {
    static ON: std::sync::OnceLock<bool> = std::sync::OnceLock::new();
    *ON.get_or_init(|| std::env::var("VERIF_ADVERSARIAL_SCHED").is_ok_and(|v| v == "1"))
}

pub fn base_plan(family: &'static str, role: Role, ch: &mut Choices) -> Plan {
    // Verdicts are only drawn from schedules the real runtime can produce: ntex-rt (and tokio's
    // LocalSet) run woken tasks in FIFO wake order, so the nondeterminism of a deployment is *when*
    // external events land between task polls, not which runnable task is picked.
    // VERIF_ADVERSARIAL_SCHED=1 enables the non-FIFO pickers for exploration only.
    let sched = if adversarial_sched() {
        match ch.weighted(&[40, 40, 20]) {
            0 => Sched::Fifo,
            1 => Sched::Random,
            _ => Sched::Pct,
        }
    } else {
        Sched::Fifo
    };
    let p_ext = *ch.pick(&[150u32, 0, 400, 700]);
    let cut = match ch.weighted(&[40, 40, 20]) {
        0 => Cut::All,
        1 => Cut::Random,
        _ => Cut::Boundary,
    };
    let ver = role.ver();
    Plan {
        family,
        role,
        sched,
        p_ext,
        cut,
        cfg: EpCfg::default(),
        peer: PeerPlan {
            connect: Connect::new(ver, "c0", 60_000),
            connack_code: 0,
            connack_props: Vec::new(),
            connack_session_present: false,
            script: Vec::new(),
            script2: Vec::new(),
            auto_ack: true,
            deviation: AckDeviation::None,
            deviation_at: 0,
            ack_codes: Vec::new(),
            pubcomp_any_order: false,
            refuse_pubrec: false,
            ack_props_mode: 0,
            long_acks: false,
            skip_connect: false,
        },
        senders: Vec::new(),
        p_immediate: 0,
        p_hold: 0,
        p_hold_ctl: 0,
        w_outcome: [1, 0, 0],
        w_payload: [1, 0, 0],
        w_proto: [1, 0, 0],
        w_ctl: [1, 0, 0],
        p_cancel: 0,
        faults: FaultPlan::default(),
        ending: Ending::Settle,
        max_steps: 6000,
        horizon_ms: 2_500,
        conns: 1,
        tags: Vec::new(),
        gate_order: Vec::new(),
        ext_script: Vec::new(),
        glue_from: None,
        immediate_mask: Vec::new(),
    }
}

/// A random subset of PUBLISH properties a client may legally send (v5).
pub fn publish_props(ch: &mut Choices, tag: u32) -> Props {
    let mut p: Props = Vec::new();
    if ch.chance(1, 4) {
        p.push((1, PropVal::Byte(u8::from(ch.chance(1, 2)))));
    }
    if ch.chance(1, 4) {
        p.push((2, PropVal::U32(1 + tag)));
    }
    if ch.chance(1, 5) {
        p.push((3, PropVal::Str(format!("ct{tag}"))));
    }
    if ch.chance(1, 5) {
        p.push((8, PropVal::Str(format!("rt/{tag}"))));
    }
    if ch.chance(1, 5) {
        p.push((9, PropVal::Bin(vec![tag as u8, 0, 255, 7])));
    }
    let n = ch.choose(3);
    for i in 0..n {
        p.push((38, PropVal::Pair(format!("k{i}"), format!("v{tag}"))));
    }
    // properties may come in any order
    if p.len() > 1 && ch.chance(1, 2) {
        let k = ch.choose(p.len() as u32) as usize;
        p.rotate_left(k);
    }
    p
}

pub fn payload_len(ch: &mut Choices, min_chunk: u32) -> usize {
    match ch.weighted(&[30, 20, 20, 15, 10, 5]) {
        0 => ch.choose(20) as usize,
        1 => 0,
        2 => 100 + ch.choose(200) as usize,
        3 => (min_chunk as usize).saturating_sub(1) + ch.choose(3) as usize,
        4 => 2000 + ch.choose(3000) as usize,
        _ => 16_000 + ch.choose(2000) as usize,
    }
}

pub fn mk_publish(ver: Ver, ch: &mut Choices, idx: u32, qos: u8, pid: Option<u16>, len: usize) -> rc::Publish {
    rc::Publish {
        dup: qos > 0 && ch.chance(1, 8),
        qos,
        retain: ch.chance(1, 8),
        topic: format!("t/{idx}"),
        pid,
        props: if ver == Ver::V5 { publish_props(ch, idx) } else { Vec::new() },
        payload: crate::world::make_payload(1000 + idx, len),
    }
}

// ------------------------------------------------------------------------------------------
// C03: inbound PUBLISH handled once, acknowledged per QoS

pub fn pick_role(ch: &mut Choices) -> Role {
    *ch.pick(&[Role::S5, Role::S3, Role::C5, Role::C3])
}

fn gen_c03(ch: &mut Choices) -> Plan {
    let role = pick_role(ch);
    let mut plan = base_plan("C03", role, ch);
    let ver = role.ver();
    plan.cfg.min_chunk = *ch.pick(&[32 * 1024u32, 0, 4, 1024]);
    plan.cfg.max_payload_buf = *ch.pick(&[32 * 1024usize, 64, 1024]);
    plan.p_immediate = *ch.pick(&[0u32, 300, 1000, 600]);
    plan.w_outcome = *ch.pick(&[[1u32, 0, 0], [8, 2, 0], [8, 0, 1], [6, 2, 1]]);
    plan.w_payload = *ch.pick(&[[1u32, 0, 0], [3, 2, 0], [3, 1, 1]]);
    plan.ending = if ch.chance(1, 5) { Ending::Stop } else { Ending::Settle };
    // with and without the topic router in front of the publish handlers (every topic "t/<n>" of this family
    // is routed to the resource t/{id}; client roles: ClientRouter)
    plan.cfg.use_router = ch.chance(1, 3);

    if role.is_server() {
        // a Maximum QoS below 2, configured or (MQTT 5) lowered for this session by the handshake's CONNACK:
        // a publish above it is not an accepted one - no handler, no acknowledgement
        if ch.chance(1, 5) {
            match ch.choose(if ver == Ver::V5 { 4 } else { 2 }) {
                0 => plan.cfg.max_qos = 1,
                1 => plan.cfg.max_qos = 0,
                2 => plan.cfg.hs_max_qos = Some(1),
                _ => plan.cfg.hs_max_qos = Some(0),
            }
        }
        // the option that lets publishes be handled after the connection has been closed must not change
        // anything while it is open
        if ch.chance(1, 4) {
            plan.cfg.handle_qos_after_disconnect = Some(ch.choose(3) as u8);
        }
    }
    if ver == Ver::V5 && ch.chance(1, 5) {
        // acknowledgements with optional properties (a user property, a reason string) towards a peer whose
        // Maximum Packet Size lets all, some or none of them through: what does not fit is dropped, what is
        // written is still one well-formed packet
        plan.cfg.ack_props = Some((*ch.pick(&[3u16, 40, 200]), *ch.pick(&[2u16, 30])));
        let m = *ch.pick(&[12u32, 20, 30, 64, 300]);
        if role.is_server() {
            plan.peer.connect.props.push((39, PropVal::U32(m)));
        } else {
            plan.peer.connack_props.push((39, PropVal::U32(m)));
        }
        plan.tags.push(format!("peer-max-packet:{m}"));
    }
    // KNOWN FINDING (C03/wrong-ack-type/C?/q2-PUBACK): the client role answers an inbound QoS 2
    // PUBLISH with PUBACK. Half of the client-role runs avoid inbound QoS 2 so that the finding
    // does not blind the rest of the family.
    let client_q2 = role.is_server() || ch.chance(1, 2);
    let n = 1 + ch.choose(8);
    let mut pubrels: Vec<PeerStep> = Vec::new();
    let mut next_pid = 1u16;
    for i in 0..n {
        let wsub = if role.is_server() { 10 } else { 0 };
        // a server never sends PINGREQ: keep it out of the client-role scripts of this family
        match ch.weighted(&[70, wsub, wsub, wsub]) {
            0 => {
                let qos = if client_q2 { ch.choose(3) as u8 } else { ch.choose(2) as u8 };
                let pid = if qos > 0 {
                    let p = next_pid;
                    next_pid += 1;
                    Some(p)
                } else {
                    None
                };
                let len = payload_len(ch, plan.cfg.min_chunk);
                let p = mk_publish(ver, ch, i, qos, pid, len);
                plan.peer.script.push(step(Pkt::Publish(p), ver, Pre::Connected));
                if qos == 2 {
                    let rel = step(Pkt::PubRel(Ack::ok(pid.unwrap())), ver, Pre::SawPubRec(pid.unwrap(), 1));
                    // (now and then the PUBREL is re-transmitted right behind the first one: one success
                    // PUBCOMP at most; the second PUBREL finds no exchange waiting for it)
                    let twice = ch.chance(1, 6);
                    if ch.chance(1, 3) {
                        plan.peer.script.push(rel.clone());
                        if twice {
                            plan.peer.script.push(rel);
                        }
                    } else {
                        pubrels.push(rel.clone());
                        if twice {
                            pubrels.push(rel);
                        }
                    }
                }
            }
            1 => plan.peer.script.push(step(Pkt::PingReq, ver, Pre::Connected)),
            2 => {
                let pid = next_pid;
                next_pid += 1;
                let s = rc::Subscribe { pid, props: Vec::new(), filters: vec![(format!("f/{i}"), 1), ("g/#".into(), 0)] };
                plan.peer.script.push(step(Pkt::Subscribe(s), ver, Pre::Connected));
            }
            _ => {
                let pid = next_pid;
                next_pid += 1;
                let s = rc::Unsubscribe { pid, props: Vec::new(), filters: vec![format!("f/{i}")] };
                plan.peer.script.push(step(Pkt::Unsubscribe(s), ver, Pre::Connected));
            }
        }
    }
    if ver == Ver::V5 && plan.cfg.use_router && role.is_server() && ch.chance(1, 3) {
        // motif (router + topic aliases): one alias bound to a topic of one resource, re-bound to a topic of
        // another resource (or of none): every publish is handled by the resource its own topic names, and the
        // acknowledgement is that handler's
        let alias = 1 + ch.choose(3) as u16;
        let topics = ["a", "t/91", "b/3", "x/y"];
        let first = ch.choose(4) as usize;
        let second = (first + 1 + ch.choose(3) as usize) % 4;
        // (no alias-only publishes here: C03's oracle attributes publishes by their topic, which must stay
        // unique within a run; resolution of alias-only publishes is C17's business)
        for (k, t) in [Some(topics[first]), Some(topics[second])].iter().enumerate() {
            let pid = next_pid;
            next_pid += 1;
            let mut p = mk_publish(ver, ch, 90 + k as u32, 1, Some(pid), 2);
            p.dup = false;
            p.props.retain(|(id, _)| *id != 35);
            p.props.push((35, PropVal::U16(alias)));
            p.topic = t.map_or(String::new(), str::to_string);
            plan.peer.script.push(step(Pkt::Publish(p), ver, Pre::Connected));
        }
        plan.tags.push("motif:alias-rebind-across-routes".into());
    }
    // remaining PUBRELs in a drawn order
    while !pubrels.is_empty() {
        let k = ch.choose(pubrels.len() as u32) as usize;
        plan.peer.script.push(pubrels.remove(k));
    }
    plan
}

fn gen_c04(ch: &mut Choices) -> Plan {
    let mut p = gen_c03(ch);
    p.family = "C04";
    // with and without write back-pressure episodes
    match ch.choose(3) {
        0 => {}
        1 => {
            p.faults.p_wr_stall = *ch.pick(&[10u32, 40]);
            p.cfg.wr_hw = *ch.pick(&[64usize, 16 * 1024 - 24]);
            p.cfg.wr_lw = if p.cfg.wr_hw == 64 { 16 } else { 512 + 24 };
        }
        _ => {
            // every write is granted a few bytes at a time
            p.faults.short_write = true;
            p.cfg.wr_hw = 64;
            p.cfg.wr_lw = 16;
        }
    }
    if p.cfg.wr_hw == 64 {
        // responses alone never fill the write buffer: application publishes do, so that the dispatcher
        // really enters (and leaves) its back-pressure state while handlers are pending
        let n = 1 + ch.choose(2);
        for _ in 0..n {
            p.senders.push((0..(1 + ch.choose(3))).map(|_| AppOp::PubQ0 { len: 40 }).collect());
        }
    }
    // MQTT 5 servers: AUTH requests are answered by the control service with AUTH, in order with the rest
    if p.role == Role::S5 && ch.chance(1, 3) {
        let n = 1 + ch.choose(2);
        for _ in 0..n {
            let at = ch.choose(p.peer.script.len() as u32 + 1) as usize;
            let a = Pkt::Auth(rc::Disconnect { code: 0x18, props: vec![(21, PropVal::Str("m".into()))] });
            // (never between a QoS 2 publish and a PUBREL that immediately follows it in the script: positions are free)
            p.peer.script.insert(at, step(a, Ver::V5, Pre::Connected));
        }
    }
    p
}

// ------------------------------------------------------------------------------------------
// outbound families: C05 window, C06 acks, C13 blocked senders, C14 QoS2, C08 wire

#[derive(Clone, Copy, PartialEq, Eq)]
pub enum OutKind {
    C05,
    C06,
    C13,
    C14,
    C08,
}

/// The send limit the statement of C05 defines for this plan.
pub fn send_limit(plan: &Plan) -> u32 {
    let cfg = &plan.cfg;
    let configured = u32::from(cfg.hs_max_send.filter(|v| *v != 0).unwrap_or(cfg.max_send));
    match plan.role {
        Role::S5 => {
            let peer = rc::prop_u16(&plan.peer.connect.props, 33).map(u32::from);
            peer.map_or(configured, |p| p.min(configured))
        }
        Role::S3 => configured,
        Role::C5 => u32::from(rc::prop_u16(&plan.peer.connack_props, 33).unwrap_or(65535)),
        Role::C3 => u32::from(cfg.max_send),
    }
}

fn gen_outbound(kind: OutKind, ch: &mut Choices) -> Plan {
    let role = pick_role(ch);
    let name = match kind {
        OutKind::C05 => "C05",
        OutKind::C06 => "C06",
        OutKind::C13 => "C13",
        OutKind::C14 => "C14",
        OutKind::C08 => "C08",
    };
    let mut plan = base_plan(name, role, ch);
    let v5 = role.ver() == Ver::V5;
    // the window
    let limit = 1 + ch.choose(4) as u16;
    match role {
        Role::S5 => match ch.choose(3) {
            0 => plan.peer.connect.props.push((33, PropVal::U16(limit))),
            1 => plan.cfg.max_send = limit,
            _ => {
                plan.cfg.hs_max_send = Some(limit);
                if ch.chance(1, 2) {
                    // the peer's Receive Maximum on either side of the override: the smaller one is the limit
                    plan.peer.connect.props.push((33, PropVal::U16(1 + ch.choose(u32::from(limit) + 2) as u16)));
                }
            }
        },
        Role::S3 => {
            if ch.chance(1, 2) {
                plan.cfg.max_send = limit;
            } else {
                plan.cfg.hs_max_send = Some(limit);
            }
        }
        Role::C5 => plan.peer.connack_props.push((33, PropVal::U16(limit))),
        Role::C3 => plan.cfg.max_send = limit,
    }
    if kind == OutKind::C06 && ch.chance(1, 4) {
        // wide window so that several exchanges are outstanding together
        match role {
            Role::S5 | Role::S3 => {
                plan.cfg.max_send = 16;
                plan.cfg.hs_max_send = None;
                plan.peer.connect.props.retain(|(id, _)| *id != 33);
            }
            Role::C5 => plan.peer.connack_props.retain(|(id, _)| *id != 33),
            Role::C3 => plan.cfg.max_send = 16,
        }
    }
    if role.is_server() && matches!(kind, OutKind::C05 | OutKind::C13) && ch.chance(1, 5) {
        // senders that start (and park) before the handshake is acknowledged, i.e. before the limit exists
        plan.cfg.early_senders = true;
        plan.cfg.hs_gated = ch.chance(1, 2);
    }
    let limit = send_limit(&plan) as usize;
    // senders
    let n_senders = match kind {
        OutKind::C14 => 2 + ch.choose(3) as usize,
        _ => 1 + ch.choose((limit.min(4) + 3) as u32) as usize,
    };
    let qos2_ok = kind == OutKind::C14 || ch.chance(1, 2);
    for _ in 0..n_senders {
        let mut ops = Vec::new();
        let n_ops = 1 + ch.choose(3);
        for _ in 0..n_ops {
            let len = ch.choose(40);
            let mut w: [u32; 7] = match kind {
                OutKind::C14 => [10, 30, 60, 5, 5, 5, 0],
                OutKind::C08 => [25, 25, 10, 10, 10, 5, 0],
                // C05 / C13: futures created and dropped without a single poll are one more way of cancelling
                OutKind::C05 | OutKind::C13 => [10, 50, if qos2_ok { 15 } else { 0 }, 10, 10, 10, 9],
                OutKind::C06 => [10, 50, if qos2_ok { 15 } else { 0 }, 10, 10, 10, 0],
            };
            if role.is_server() {
                // SUBSCRIBE / UNSUBSCRIBE are client-to-server packets: a server never gets a SUBACK
                w[3] = 0;
                w[4] = 0;
            }
            match ch.weighted(&w) {
                0 => ops.push(AppOp::PubQ0 { len }),
                // (one in six through the non-blocking API: readiness check, send, completion by callback)
                1 => ops.push(if ch.chance(1, 6) { AppOp::PubQ1Nb { len, pid: None } } else { AppOp::PubQ1 { len, pid: None } }),
                2 => {
                    // (caller-chosen identifiers collide now and then: the refused send must not touch the
                    // exchange that owns the identifier)
                    let pid = if matches!(kind, OutKind::C14 | OutKind::C06) && ch.chance(1, 4) { Some(1 + ch.choose(3) as u16) } else { None };
                    ops.push(AppOp::PubQ2 { len, pid });
                    // (released, dropped, or "released" into a future that is dropped before its first poll)
                    ops.push(match ch.weighted(&[6, 2, 1]) {
                        0 => AppOp::Release,
                        1 => AppOp::DropReceipt,
                        _ => AppOp::DropRelease,
                    });
                }
                // (a caller-chosen identifier may collide with one that is outstanding: the request is then
                // refused locally and must leave the other exchange alone)
                3 => {
                    let pid = if ch.chance(1, 5) { Some(1 + ch.choose(4) as u16) } else { None };
                    ops.push(AppOp::Subscribe { n: 1 + ch.choose(3) as u8, pid });
                }
                4 => {
                    let pid = if ch.chance(1, 5) { Some(1 + ch.choose(4) as u16) } else { None };
                    ops.push(AppOp::Unsubscribe { n: 1 + ch.choose(2) as u8, pid });
                }
                5 => ops.push(AppOp::Ready),
                _ => ops.push(AppOp::Unpolled { what: ch.choose(3) as u8 }),
            }
        }
        plan.senders.push(ops);
    }
    if kind == OutKind::C08 {
        // streamed sends and sends that must fail in or before the encoder
        let extra = 1 + ch.choose(2);
        for _ in 0..extra {
            let mut ops = Vec::new();
            match ch.choose(4) {
                0 => {
                    let size = 1 + ch.choose(60);
                    let mut chunks = Vec::new();
                    let mut left = size;
                    while left > 0 {
                        let c = 1 + ch.choose(left);
                        chunks.push(c);
                        left -= c;
                    }
                    // sometimes under- or over-deliver
                    match ch.choose(4) {
                        0 => {
                            chunks.pop();
                        }
                        1 => chunks.push(1 + ch.choose(5)),
                        _ => {}
                    }
                    let pid = if ch.chance(1, 4) { Some(1 + ch.choose(3) as u16) } else { None };
                    ops.push(AppOp::StreamQ1 { size, chunks, pid });
                }
                1 => {
                    let size = 1 + ch.choose(60);
                    let c1 = 1 + ch.choose(size);
                    let mut chunks = vec![c1];
                    if size > c1 {
                        chunks.push(size - c1);
                    }
                    if ch.chance(1, 4) {
                        chunks.pop();
                    }
                    ops.push(AppOp::StreamQ0 { size, chunks });
                }
                2 => {
                    if !role.is_server() && ch.chance(1, 2) {
                        ops.push(AppOp::BadSubscribe { unsub: ch.chance(1, 2) });
                    } else if ch.chance(1, 3) {
                        // a QoS 0 publish that carries a packet identifier (a received packet forwarded as it is)
                        ops.push(AppOp::PubQ0Pid { len: ch.choose(20), pid: 1 + ch.choose(500) as u16 });
                        ops.push(AppOp::PubQ0 { len: 3 });
                    } else {
                        ops.push(AppOp::BadTopicTooLong { qos: ch.choose(2) as u8 });
                    }
                }
                _ => ops.push(AppOp::PubQ1 { len: 3, pid: Some(1 + ch.choose(3) as u16) }),
            }
            plan.senders.push(ops);
        }
    }
    if kind == OutKind::C06 && ch.chance(1, 3) {
        // sends that fail locally (in or before the encoder) next to exchanges that are outstanding:
        // whatever they registered must be withdrawn without touching the others
        let n = 1 + ch.choose(2);
        for _ in 0..n {
            let op = if !role.is_server() && ch.chance(2, 3) { AppOp::BadSubscribe { unsub: ch.chance(1, 2) } } else { AppOp::BadTopicTooLong { qos: 1 } };
            let mut ops = vec![op];
            if ch.chance(1, 2) {
                ops.push(AppOp::PubQ1 { len: 2, pid: None });
            }
            plan.senders.push(ops);
        }
    }
    if matches!(kind, OutKind::C06 | OutKind::C08) && v5 && ch.chance(1, 4) {
        // the peer's Maximum Packet Size makes the larger sends fail locally (over-size), the smaller ones pass
        let m = *ch.pick(&[24u32, 32, 48]);
        match role {
            Role::S5 => plan.peer.connect.props.push((39, PropVal::U32(m))),
            _ => plan.peer.connack_props.push((39, PropVal::U32(m))),
        }
        plan.tags.push(format!("peer-max-packet:{m}"));
    }
    if kind == OutKind::C06 && ch.chance(1, 3) {
        // caller-chosen ids, possibly colliding
        let mut ops = Vec::new();
        for _ in 0..(1 + ch.choose(2)) {
            ops.push(AppOp::PubQ1 { len: 2, pid: Some(1 + ch.choose(3) as u16) });
        }
        plan.senders.push(ops);
    }
    if matches!(kind, OutKind::C06 | OutKind::C08) && ch.chance(1, 4) {
        // motif: non-blocking sends with caller-chosen ids, some of which fail locally (over the peer's
        // Maximum Packet Size, or while a streamed publish is owed payload), followed by sends that use the
        // same ids again: a send that failed locally must leave nothing behind
        let mut ops = Vec::new();
        for _ in 0..(2 + ch.choose(3)) {
            let len = *ch.pick(&[2u32, 30, 45]);
            let pid = Some(20 + ch.choose(2) as u16);
            ops.push(if ch.chance(3, 4) { AppOp::PubQ1Nb { len, pid } } else { AppOp::PubQ1 { len, pid } });
        }
        plan.senders.push(ops);
        if v5 && ch.chance(1, 2) && !plan.tags.iter().any(|t| t.starts_with("peer-max-packet")) {
            match role {
                Role::S5 => plan.peer.connect.props.push((39, PropVal::U32(32))),
                _ => plan.peer.connack_props.push((39, PropVal::U32(32))),
            }
            plan.tags.push("peer-max-packet:32".into());
        }
        if ch.chance(1, 2) {
            plan.senders.push(vec![AppOp::StreamQ1 { size: 8, chunks: vec![4, 4], pid: None }]);
        }
    }
    let mut silent_peer = false;
    if kind == OutKind::C05 && role.is_server() && ch.chance(1, 8) {
        // motif: the window is full and stays full (the peer acknowledges nothing); a SUBSCRIBE then makes the
        // application's protocol service fail, and the control service, while it handles that Stop, tries one
        // more awaiting send: it fails or waits - it never goes out on top of a full window
        plan.cfg.ctl_sends = true;
        plan.w_proto = [0, 0, 1];
        silent_peer = true;
        let ver = role.ver();
        plan.peer.script.push(step(
            Pkt::Subscribe(rc::Subscribe { pid: 70, props: Vec::new(), filters: vec![("boom".into(), 0)] }),
            ver,
            Pre::SawPackets(1 + limit),
        ));
        while plan.senders.len() < limit + 1 {
            plan.senders.push(vec![AppOp::PubQ1 { len: 1, pid: None }]);
        }
        plan.tags.push("motif:send-from-stop-handler".into());
    }
    plan.peer.auto_ack = !silent_peer;
    if v5 && ch.chance(1, 2) {
        plan.peer.ack_codes = vec![0x00, 0x10, 0x00, 0x80, 0x87];
    }
    plan.peer.pubcomp_any_order = kind == OutKind::C14 && ch.chance(1, 2);
    // (MQTT 5) the peer may refuse an exactly-once publish with its PUBREC
    plan.peer.refuse_pubrec = v5 && !plan.peer.ack_codes.is_empty() && matches!(kind, OutKind::C14 | OutKind::C06 | OutKind::C05) && ch.chance(1, 2);
    plan.peer.long_acks = v5 && ch.chance(1, 4);
    if v5 && matches!(kind, OutKind::C06 | OutKind::C14) && ch.chance(1, 3) {
        // the peer's acknowledgements carry user properties and a reason string, in either order: they are
        // part of what the awaiting caller is handed
        plan.peer.ack_props_mode = 1 + ch.choose(3) as u8;
    }
    if kind == OutKind::C06 && ch.chance(1, 2) {
        plan.peer.deviation = *ch.pick(&[
            AckDeviation::WrongType,
            AckDeviation::Reorder,
            AckDeviation::Duplicate,
            AckDeviation::UnknownId,
            AckDeviation::Unsolicited,
        ]);
        plan.peer.deviation_at = ch.choose(3);
    }
    // cancellation of waiting futures and write back-pressure
    if matches!(kind, OutKind::C05 | OutKind::C13) {
        plan.p_cancel = *ch.pick(&[0u32, 3, 8]);
        if ch.chance(1, 2) {
            plan.faults.p_wr_stall = *ch.pick(&[2u32, 6]);
            plan.cfg.wr_hw = *ch.pick(&[64usize, 256, 1024]);
            plan.cfg.wr_lw = plan.cfg.wr_hw / 4;
        }
    }
    if kind == OutKind::C13 && ch.chance(1, 5) {
        // motif: back-pressure while the window still has room and nothing is in flight (the write
        // buffer is filled by QoS 0 publishes during a stall); waiters queue up behind futures that were
        // dropped, and only the back-pressure-off notification can release them
        plan.senders.clear();
        plan.senders.push((0..(2 + ch.choose(3))).map(|_| AppOp::PubQ0 { len: 40 }).collect());
        for _ in 0..(1 + ch.choose(3)) {
            plan.senders.push(vec![AppOp::Unpolled { what: ch.choose(3) as u8 }]);
        }
        for _ in 0..(1 + ch.choose(2)) {
            plan.senders.push(vec![match ch.choose(3) {
                0 => AppOp::Ready,
                1 => AppOp::PubQ1 { len: 2, pid: None },
                _ => AppOp::PubQ0 { len: 1 },
            }]);
        }
        plan.faults.p_wr_stall = *ch.pick(&[40u32, 150]);
        plan.cfg.wr_hw = 64;
        plan.cfg.wr_lw = 16;
        plan.p_cancel = *ch.pick(&[0u32, 3]);
        plan.tags.push("motif:backpressure-free-window".into());
    }
    if kind == OutKind::C13 && ch.chance(1, 5) {
        // motif: a window of one, many short senders and frequent cancellations: woken waiters find the
        // slot taken by a fresh sender, park again at the head, are woken again - and are cancelled then
        match role {
            Role::S5 => {
                plan.cfg.max_send = 1;
                plan.cfg.hs_max_send = None;
                plan.peer.connect.props.retain(|(id, _)| *id != 33);
            }
            Role::S3 => {
                plan.cfg.max_send = 1;
                plan.cfg.hs_max_send = None;
            }
            Role::C5 => {
                plan.peer.connack_props.retain(|(id, _)| *id != 33);
                plan.peer.connack_props.push((33, PropVal::U16(1)));
            }
            Role::C3 => plan.cfg.max_send = 1,
        }
        plan.senders.clear();
        for _ in 0..(4 + ch.choose(3)) {
            plan.senders.push((0..(1 + ch.choose(2))).map(|_| if ch.chance(1, 5) { AppOp::Ready } else { AppOp::PubQ1 { len: 1, pid: None } }).collect());
        }
        plan.p_cancel = *ch.pick(&[15u32, 40]);
        plan.p_ext = *ch.pick(&[400u32, 700]);
        plan.faults.p_wr_stall = 0;
        if ch.chance(1, 2) {
            // ... or are woken while write back-pressure is on (QoS 0 publishes fill the buffer during a
            // stall), park again, and are woken a second time when it lifts
            plan.senders.insert(0, (0..(2 + ch.choose(2))).map(|_| AppOp::PubQ0 { len: 40 }).collect());
            plan.faults.p_wr_stall = *ch.pick(&[40u32, 120]);
            plan.cfg.wr_hw = 64;
            plan.cfg.wr_lw = 16;
        }
        plan.tags.push("motif:window-of-one-churn".into());
    } else if kind == OutKind::C13 && matches!(role, Role::S3 | Role::C3) && ch.chance(1, 5) {
        // motif: write back-pressure ends while the dispatcher is paused because the service is not ready
        // (receive window of one, its handler busy until the closing phase): the back-pressure-off
        // notification must still be delivered
        plan.senders.clear();
        plan.senders.push((0..(2 + ch.choose(3))).map(|_| AppOp::PubQ0 { len: 40 }).collect());
        for _ in 0..(1 + ch.choose(2)) {
            plan.senders.push(vec![match ch.choose(3) {
                0 => AppOp::Ready,
                1 => AppOp::PubQ1 { len: 2, pid: None },
                _ => AppOp::PubQ0 { len: 1 },
            }]);
        }
        plan.peer.script.clear();
        let p = mk_publish(role.ver(), ch, 120, 1, Some(220), 5);
        plan.peer.script.push(step(Pkt::Publish(p), role.ver(), Pre::Connected));
        plan.cfg.max_receive = 1;
        plan.p_immediate = 0;
        plan.p_hold = 1000;
        plan.faults.p_wr_stall = *ch.pick(&[40u32, 150]);
        plan.cfg.wr_hw = 64;
        plan.cfg.wr_lw = 16;
        plan.p_cancel = 0;
        plan.tags.push("motif:backpressure-ends-while-not-ready".into());
    }
    if kind == OutKind::C08 && role == Role::S5 && ch.chance(1, 6) {
        // motif: the sink is stopped while the io is still writable - a protocol handler fails in the
        // middle of a streamed publish, the Stop notification is being handled (gated), and the
        // application keeps sending meanwhile
        plan.senders.clear();
        plan.senders.push(vec![if ch.chance(1, 2) {
            AppOp::StreamQ0 { size: 10, chunks: vec![4, 6] }
        } else {
            AppOp::StreamQ1 { size: 10, chunks: vec![4, 6], pid: None }
        }]);
        for _ in 0..(1 + ch.choose(2)) {
            plan.senders.push((0..(1 + ch.choose(2))).map(|_| AppOp::PubQ0 { len: 3 }).collect());
        }
        plan.peer.script.clear();
        let sub = rc::Subscribe { pid: 900, props: Vec::new(), filters: vec![("m/#".into(), 0)] };
        plan.peer.script.push(step(Pkt::Subscribe(sub), Ver::V5, Pre::Connected));
        plan.w_proto = [0, 0, 1];
        plan.p_immediate = *ch.pick(&[0u32, 1000]);
        plan.cfg.ctl_gated = true;
        plan.tags.push("motif:stopped-sink-writable-io".into());
    }
    if kind == OutKind::C14 && ch.chance(1, 3) {
        // write back-pressure episodes while receipts are held and released (QoS 0 publishes fill the
        // write buffer during a stall)
        plan.senders.push((0..(2 + ch.choose(3))).map(|_| AppOp::PubQ0 { len: 40 }).collect());
        plan.faults.p_wr_stall = *ch.pick(&[20u32, 80]);
        plan.cfg.wr_hw = 64;
        plan.cfg.wr_lw = 16;
    }
    if kind == OutKind::C08 && ch.chance(1, 6) {
        // motif: a streamed publish whose next chunk parks on write back-pressure, and is cancelled there
        // (future and handle dropped with payload still owed): the connection must be aborted, not
        // continued with a short payload
        let stream = if ch.chance(1, 2) {
            AppOp::StreamQ0 { size: 120, chunks: vec![40, 40, 40] }
        } else {
            AppOp::StreamQ1 { size: 120, chunks: vec![40, 40, 40], pid: None }
        };
        plan.senders.insert(0, vec![stream]);
        plan.faults.p_wr_stall = *ch.pick(&[60u32, 200]);
        plan.cfg.wr_hw = *ch.pick(&[16usize, 48]);
        plan.cfg.wr_lw = 8;
        plan.p_cancel = *ch.pick(&[8u32, 25]);
        plan.tags.push("motif:stream-cancelled-on-backpressure".into());
    }
    if kind == OutKind::C08 && ch.chance(1, 3) {
        plan.faults.p_wr_stall = 3;
        plan.cfg.wr_hw = 128;
        plan.cfg.wr_lw = 32;
    }
    // some inbound traffic whose responses are written by the dispatcher, concurrently
    if ch.chance(1, 3) {
        let n = 1 + ch.choose(3);
        for i in 0..n {
            let p = mk_publish(role.ver(), ch, 100 + i, 1, Some(200 + i as u16), 5);
            plan.peer.script.push(step(Pkt::Publish(p), role.ver(), Pre::Connected));
        }
        plan.p_immediate = 500;
    }
    plan.ending = Ending::Settle;
    plan.max_steps = 12_000;
    if plan.senders.iter().flatten().any(|o| matches!(o, AppOp::PubQ1Nb { .. })) && ch.chance(1, 2) {
        // the acknowledgement callback looks at its own sink (is_open / is_ready / credit) - re-entrancy into
        // the shared state from inside the dispatcher's acknowledgement path
        plan.cfg.cb_queries = true;
        plan.tags.push("cb-queries".into());
        if ch.chance(1, 2) {
            // ... and sends from there (QoS 0: no window slot, no acknowledgement; the packet belongs to no sender op)
            plan.cfg.cb_sends = true;
            plan.tags.push("cb-sends".into());
        }
    }
    plan
}

// ------------------------------------------------------------------------------------------
// C11: inbound packet identifiers stay reserved until acknowledged

fn gen_c11(ch: &mut Choices) -> Plan {
    let role = pick_role(ch);
    let ver = role.ver();
    let mut plan = base_plan("C11", role, ch);
    plan.cut = *ch.pick(&[Cut::All, Cut::Random]);
    plan.p_immediate = *ch.pick(&[0u32, 0, 200, 500]);
    // with and without the topic router (clients: ClientRouter): publishes consumed by a resource handler
    // take another path through the dispatchers than those going to the default / control service
    plan.cfg.use_router = ch.chance(1, 3);
    // negative acks are one of the ack paths that must release the id (v5)
    plan.w_outcome = *ch.pick(&[[1u32, 0, 0], [6, 3, 0]]);
    let client_q2 = role.is_server() || ch.chance(1, 2);
    let n = 2 + ch.choose(8);
    let mut q2_ids: Vec<u16> = Vec::new();
    for i in 0..n {
        let pid = 1 + ch.choose(3) as u16;
        let wsub = if role.is_server() { 15 } else { 0 };
        match ch.weighted(&[50, wsub, wsub, 20]) {
            0 => {
                let qos = if client_q2 { 1 + ch.choose(2) as u8 } else { 1 };
                let plen = ch.choose(6) as usize;
                let mut p = mk_publish(ver, ch, i, qos, Some(pid), plen);
                p.dup = false;
                plan.peer.script.push(step(Pkt::Publish(p), ver, Pre::Connected));
                if qos == 2 {
                    q2_ids.push(pid);
                }
            }
            1 => {
                let sb = rc::Subscribe { pid, props: Vec::new(), filters: vec![(format!("f/{i}"), 1)] };
                plan.peer.script.push(step(Pkt::Subscribe(sb), ver, Pre::Connected));
            }
            2 => {
                let sb = rc::Unsubscribe { pid, props: Vec::new(), filters: vec![format!("f/{i}")] };
                plan.peer.script.push(step(Pkt::Unsubscribe(sb), ver, Pre::Connected));
            }
            _ => {
                // PUBREL: mostly for an id with a QoS2 exchange under way, sometimes for a stray id
                let id = if !q2_ids.is_empty() && ch.chance(3, 4) { *ch.pick(&q2_ids) } else { pid };
                let pre = if ch.chance(1, 2) { Pre::SawPubRec(id, 1) } else { Pre::Connected };
                plan.peer.script.push(step(Pkt::PubRel(Ack::ok(id)), ver, pre));
            }
        }
    }
    if role.is_server() && ch.chance(1, 5) {
        // motif: publishes that are still handled after the connection has been closed (the option for
        // it is on). The peer ends its stream right behind a last PUBLISH that re-uses the identifier of an
        // earlier one: the bytes and the end of the stream reach the endpoint together, the identifier
        // rules hold for what is dispatched after the close as well
        let q = 1 + ch.choose(2) as u8;
        plan.cfg.handle_qos_after_disconnect = Some(q);
        let pid = 1 + ch.choose(3) as u16;
        let qos = 1 + ch.choose(q as u32) as u8;
        let mut p = mk_publish(ver, ch, 40, qos, Some(pid), 2);
        p.dup = false;
        let mut st = step(Pkt::Publish(p), ver, Pre::Connected);
        st.then_close = Some(false);
        plan.peer.script.push(st);
        plan.p_hold = *ch.pick(&[0u32, 400, 800]);
        plan.tags.push("after-disconnect".into());
    }
    plan.ending = Ending::Settle;
    plan
}

// ------------------------------------------------------------------------------------------
// C12: inbound concurrency limits hold and never wedge the connection

fn gen_c12(ch: &mut Choices) -> Plan {
    let role = pick_role(ch);
    let ver = role.ver();
    let mut plan = base_plan("C12", role, ch);
    plan.cfg.max_receive = *ch.pick(&[1u16, 2, 3, 4, 0]);
    plan.cfg.max_receive_size = *ch.pick(&[65535usize, 0, 60, 300]);
    if role == Role::C5 {
        plan.cfg.client_receive_max = plan.cfg.max_receive;
    }
    plan.cfg.min_chunk = *ch.pick(&[32 * 1024u32, 0, 16]);
    plan.cfg.max_payload_buf = *ch.pick(&[32 * 1024usize, 64]);
    plan.p_immediate = *ch.pick(&[0u32, 300]);
    plan.w_payload = *ch.pick(&[[1u32, 0, 0], [3, 2, 0]]);
    // some handlers stay busy until the closing phase: the scripted part goes quiet with the limiter
    // part-filled, and whatever the completed handlers freed must have been used
    plan.p_hold = *ch.pick(&[0u32, 0, 350, 600]);
    if ver == Ver::V5 {
        // refused publishes (negative PUBACK / PUBREC) end their exchange: they must give their unit of
        // Receive Maximum back
        plan.w_outcome = *ch.pick(&[[1u32, 0, 0], [1, 0, 0], [6, 4, 0]]);
    }
    if role == Role::S5 && ch.chance(1, 4) {
        // the handshake's CONNACK sets the session's Receive Maximum: above, below or in place of (0 =
        // none) the configured one; what is advertised is what is in force
        plan.cfg.max_receive = *ch.pick(&[0u16, 1, 2, 4]);
        plan.cfg.hs_receive_max = Some(*ch.pick(&[1u16, 2, 3]));
    }
    // v5: does the peer respect the advertised Receive Maximum?
    let respect = ch.chance(2, 3);
    let n = 2 + ch.choose(9);
    let burst = ch.chance(1, 2);
    let rm = plan.cfg.hs_receive_max.unwrap_or(plan.cfg.max_receive);
    for i in 0..n {
        let qos = if role.is_server() || ch.chance(1, 2) { ch.choose(3) as u8 } else { ch.choose(2) as u8 };
        let len = match ch.choose(4) {
            0 => ch.choose(8) as usize,
            1 => 40 + ch.choose(40) as usize,
            2 => 250 + ch.choose(100) as usize,
            _ => 2000,
        };
        let pid = if qos > 0 { Some(10 + i as u16) } else { None };
        let mut p = mk_publish(ver, ch, i, qos, pid, len);
        p.dup = false;
        // a peer that respects the limit waits for the final ack of an earlier publish first
        let pre = if ver == Ver::V5 && respect && rm != 0 && qos > 0 && !burst {
            Pre::WindowBelow(rm)
        } else if ver == Ver::V5 && respect && rm != 0 && qos > 0 {
            Pre::WindowBelow(rm)
        } else {
            Pre::Connected
        };
        plan.peer.script.push(step(Pkt::Publish(p), ver, pre));
        if qos == 2 && ch.chance(2, 3) {
            plan.peer.script.push(step(Pkt::PubRel(Ack::ok(pid.unwrap())), ver, Pre::SawPubRec(pid.unwrap(), 1)));
        }
    }
    if role.is_server() && ch.chance(1, 4) {
        // motif: the byte limit equals the size of the first k packets exactly, so that completions take
        // the total from above the limit down to exactly the limit (the boundary of the limiter's
        // wake-up and availability conditions); one more packet overflows it, one or two wait unread
        plan.peer.script.clear();
        let k = 1 + ch.choose(3) as usize;
        let total = k + 2 + ch.choose(2) as usize;
        let mut sizes = Vec::new();
        for i in 0..total as u32 {
            let qos = ch.choose(2) as u8;
            let pid = if qos > 0 { Some(10 + i as u16) } else { None };
            let len = *ch.pick(&[0usize, 7, 30, 90]);
            let mut p = mk_publish(ver, ch, i, qos, pid, len);
            p.dup = false;
            let st = step(Pkt::Publish(p), ver, Pre::Connected);
            sizes.push(rc::fixed_header(&st.bytes).ok().flatten().map_or(0, |h| h.1));
            plan.peer.script.push(st);
        }
        plan.cfg.max_receive_size = sizes[..k].iter().sum::<usize>().max(1);
        plan.cfg.max_receive = 0;
        plan.p_immediate = 0;
        plan.p_hold = *ch.pick(&[300u32, 500, 700]);
        plan.tags.push(format!("motif:exact-fit:{k}"));
    }
    plan.ending = Ending::Settle;
    plan.max_steps = 15_000;
    plan
}


// ------------------------------------------------------------------------------------------
// C07: however a connection ends, it is torn down completely and exactly once

/// A few byte strings no MQTT decoder accepts.
pub fn undecodable(ch: &mut Choices) -> (Vec<u8>, &'static str) {
    match ch.choose(5) {
        0 => (vec![0x00, 0x00], "reserved packet type 0"),
        1 => (vec![0x30, 0xff, 0xff, 0xff, 0xff, 0x01], "remaining length with a fifth continuation byte"),
        2 => (vec![0x62, 0x01, 0x00], "PUBREL with a one-byte body"),
        3 => (vec![0x40, 0x01, 0x00], "PUBACK with a one-byte body"),
        // (v3: id only; v5 reads the second id byte pair as id + empty properties: no filter either way)
        _ => (vec![0x82, 0x03, 0x00, 0x01, 0x00], "SUBSCRIBE without a topic filter"),
    }
}

/// Base scenario of the teardown families: inbound publishes with gated / held handlers and payloads
/// in pieces, senders awaiting acks or parked on a small window, optional write back-pressure.
/// `small`: payloads of at most 40 bytes (the byte-offset sweep enumerates the whole stream).
fn c07_base(family: &'static str, ch: &mut Choices, small: bool) -> Plan {
    let role = pick_role(ch);
    let ver = role.ver();
    let mut plan = base_plan(family, role, ch);
    plan.cfg.use_router = false;
    plan.cfg.ctl_gated = ch.chance(1, 2);
    plan.w_ctl = *ch.pick(&[[1u32, 0, 0], [2, 1, 1]]);
    plan.p_immediate = *ch.pick(&[0u32, 300, 1000]);
    plan.p_hold = *ch.pick(&[0u32, 0, 300]);
    if plan.cfg.ctl_gated && ch.chance(1, 3) {
        // the Stop notification takes (simulated) time: timers fire while it is being handled
        plan.p_hold_ctl = 700;
    }
    if ch.chance(1, 4) {
        // the application's services take time to shut down: the connection is still being torn down while
        // handlers complete and timers fire
        plan.cfg.svc_slow_shutdown = true;
    }
    if !role.is_server() && ch.chance(1, 3) {
        // a client with its own keep-alive task running next to the dispatcher
        plan.cfg.client_keepalive_s = 1 + ch.choose(2) as u16;
    }
    plan.w_payload = *ch.pick(&[[1u32, 0, 0], [2, 2, 1]]);
    plan.cfg.min_chunk = *ch.pick(&[0u32, 16, 32 * 1024]);
    plan.cfg.max_payload_buf = *ch.pick(&[32 * 1024usize, 64]);
    // -- base scenario: inbound publishes with gated handlers, some with payloads that arrive in pieces
    let n_in = ch.choose(5);
    for i in 0..n_in {
        let qos = if role.is_server() || ch.chance(1, 2) { ch.choose(3) as u8 } else { ch.choose(2) as u8 };
        let len = if small { *ch.pick(&[2usize, 40, 0, 17]) } else { *ch.pick(&[2usize, 40, 300, 2000]) };
        let pid = if qos > 0 { Some(10 + i as u16) } else { None };
        let mut p = mk_publish(ver, ch, i, qos, pid, len);
        p.dup = false;
        plan.peer.script.push(step(Pkt::Publish(p), ver, Pre::Connected));
        if qos == 2 && ch.chance(1, 2) {
            plan.peer.script.push(step(Pkt::PubRel(Ack::ok(pid.unwrap())), ver, Pre::SawPubRec(pid.unwrap(), 1)));
        }
        if role.is_server() && ch.chance(1, 4) {
            let p = match ch.choose(3) {
                0 => Pkt::PingReq,
                1 => Pkt::Subscribe(rc::Subscribe { pid: 40 + i as u16, props: Vec::new(), filters: vec![(format!("f/{i}"), 1)] }),
                _ => Pkt::Unsubscribe(rc::Unsubscribe { pid: 50 + i as u16, props: Vec::new(), filters: vec![format!("f/{i}")] }),
            };
            plan.peer.script.push(step(p, ver, Pre::Connected));
        }
    }
    // -- outbound sends awaiting acks or parked on the window
    if ch.chance(2, 3) {
        let limit = 1 + ch.choose(2) as u16;
        match role {
            Role::S5 | Role::S3 | Role::C3 => plan.cfg.max_send = limit,
            Role::C5 => plan.peer.connack_props.push((33, PropVal::U16(limit))),
        }
        let n = 1 + ch.choose(3);
        for _ in 0..n {
            let mut ops = Vec::new();
            match ch.choose(6) {
                0 | 1 => ops.push(AppOp::PubQ1 { len: ch.choose(20), pid: None }),
                2 => {
                    ops.push(AppOp::PubQ2 { len: 3, pid: None });
                    ops.push(AppOp::Release);
                }
                3 => {
                    if role.is_server() {
                        ops.push(AppOp::PubQ0 { len: 5 });
                    } else {
                        ops.push(AppOp::Subscribe { n: 1, pid: None });
                    }
                }
                4 => ops.push(AppOp::StreamQ1 { size: 10, chunks: vec![4, 6], pid: None }),
                _ => ops.push(AppOp::Ready),
            }
            if ch.chance(1, 3) {
                ops.push(AppOp::PubQ1 { len: 1, pid: None });
            }
            plan.senders.push(ops);
        }
        plan.peer.auto_ack = ch.chance(1, 2);
    }
    // -- back-pressure
    if ch.chance(1, 3) {
        plan.faults.p_wr_stall = 30;
        plan.cfg.wr_hw = 64;
        plan.cfg.wr_lw = 16;
    }
    if role.is_server() && !small && ch.chance(1, 5) {
        // motif: a SUBSCRIBE handler that publishes through the sink and awaits the acknowledgement before it
        // answers, with another request buffered behind it, on a peer that acknowledges or not: when the
        // connection ends, the handler's send fails and everything still winds down
        // (the SUBSCRIBE comes first, while no other protocol handler is running: a request that had to wait
        // in the library's control buffer keeps the dispatcher "not ready" - reading paused - for as long as
        // its handler runs, so a handler started from the buffer must not wait for anything that has to be
        // read; that is a documented-by-construction limit of the application, not of the library)
        plan.cfg.handler_sends = true;
        plan.peer.script.insert(0, step(Pkt::PingReq, ver, Pre::Connected));
        plan.peer.script.insert(0, step(Pkt::Subscribe(rc::Subscribe { pid: 60, props: Vec::new(), filters: vec![("hs/1".into(), 1)] }), ver, Pre::Connected));
        plan.peer.auto_ack = ch.chance(1, 3);
        plan.tags.push("motif:handler-sends".into());
    }
    plan.ending = Ending::SettleThenFin;
    plan.max_steps = 12_000;
    plan
}

fn gen_c07(ch: &mut Choices) -> Plan {
    let mut plan = c07_base("C07", ch, false);
    let role = plan.role;
    let ver = role.ver();
    let v5 = ver == Ver::V5;
    // -- the termination cause
    let span = 20 + 15 * (plan.peer.script.len() as u32 + plan.senders.len() as u32);
    match ch.choose(11) {
        10 => {
            // the publish service's readiness check starts to fail (an application error, like a failing handler)
            plan.cfg.svc_ready_fail_after = Some(1 + ch.choose(3));
        }
        0 => plan.faults.fin_at_step = Some(1 + u64::from(ch.choose(span))),
        1 => plan.faults.rst_at_step = Some(1 + u64::from(ch.choose(span))),
        2 => plan.faults.wr_err_at_step = Some(1 + u64::from(ch.choose(span))),
        3 if ch.chance(1, 4) => {
            // motif: two publishes whose handlers stay busy and, in the very same read, bytes that cannot be
            // decoded: the connection ends in the dispatcher poll that started the last handler
            let at = plan.peer.script.len();
            for k in 0..(2 + ch.choose(3)) {
                let mut p = mk_publish(ver, ch, 95 + k, 1, Some(95 + k as u16), 2);
                p.dup = false;
                plan.peer.script.push(step(Pkt::Publish(p), ver, Pre::Connected));
            }
            let (bytes, what) = undecodable(ch);
            plan.peer.script.push(PeerStep { pre: Pre::Connected, bytes, pkt: None, corrupt: Some(what.to_string()), then_close: None });
            plan.glue_from = Some(at);
            plan.cut = Cut::All;
            plan.p_immediate = 0;
            plan.cfg.ctl_gated = false;
            plan.w_payload = [1, 0, 0];
            plan.tags.push("motif:cause-in-the-same-read".into());
        }
        3 => {
            // undecodable input somewhere in the stream, or a packet cut short followed by FIN
            let at = ch.choose(plan.peer.script.len() as u32 + 1) as usize;
            if ch.chance(2, 3) {
                let (bytes, what) = undecodable(ch);
                plan.peer.script.insert(at, PeerStep { pre: Pre::Connected, bytes, pkt: None, corrupt: Some(what.to_string()), then_close: None });
            } else {
                let full = rc::encode(ver, &Pkt::Publish(mk_publish(ver, ch, 90, 1, Some(90), 300)));
                let keep = 1 + ch.choose(full.len() as u32 - 1) as usize;
                plan.peer.script.insert(
                    at,
                    PeerStep { pre: Pre::Connected, bytes: full[..keep].to_vec(), pkt: None, corrupt: Some(format!("PUBLISH cut after {keep} bytes, then FIN")), then_close: Some(false) },
                );
            }
        }
        4 => {
            // protocol violation
            let at = ch.choose(plan.peer.script.len() as u32 + 1) as usize;
            let p = if role.is_server() && ch.chance(1, 2) {
                Pkt::Connect(Connect::new(ver, "c0", 60_000))
            } else if v5 {
                let mut p = mk_publish(ver, ch, 91, 1, Some(91), 2);
                p.topic = String::new();
                p.props.retain(|(id, _)| *id != 35);
                p.props.push((35, PropVal::U16(7)));
                Pkt::Publish(p)
            } else {
                // packet id already in use (first one held by its handler)
                plan.p_immediate = 0;
                let a = mk_publish(ver, ch, 92, 1, Some(92), 2);
                plan.peer.script.insert(at, step(Pkt::Publish(a), ver, Pre::Connected));
                Pkt::Publish(mk_publish(ver, ch, 93, 1, Some(92), 2))
            };
            let at = (at + 1).min(plan.peer.script.len());
            plan.peer.script.insert(at, step(p, ver, Pre::Connected));
        }
        5 => {
            // handler failures
            plan.w_outcome = [1, 0, 2];
            plan.w_proto = [1, 0, 1];
        }
        6 => {
            // keep-alive expiry: the peer goes silent
            if role.is_server() {
                plan.peer.connect.keep_alive = 1 + ch.choose(2) as u16;
            } else {
                plan.cfg.client_keepalive_s = 1 + ch.choose(2) as u16;
                // the peer does not answer PINGREQ
                plan.peer.auto_ack = false;
            }
            plan.horizon_ms = 12_000;
        }
        7 => {
            // local close
            let op = match ch.choose(if v5 { 4 } else { 2 }) {
                0 => AppOp::Close,
                1 => AppOp::ForceClose,
                2 => AppOp::CloseReason(0x8b),
                _ => AppOp::CloseNoReason,
            };
            let mut ops = Vec::new();
            if ch.chance(1, 2) {
                ops.push(AppOp::PubQ1 { len: 2, pid: None });
            }
            ops.push(op);
            if ch.chance(1, 2) {
                ops.push(AppOp::PubQ1 { len: 2, pid: None });
            }
            plan.senders.push(ops);
        }
        8 => {
            // the peer says goodbye
            let at = ch.choose(plan.peer.script.len() as u32 + 1) as usize;
            let code = if v5 { *ch.pick(&[0u8, 0x04, 0x81]) } else { 0 };
            plan.peer.script.insert(at, step(Pkt::Disconnect(rc::Disconnect { code, props: Vec::new() }), ver, Pre::Connected));
        }
        _ => {} // nothing special: the closing FIN of the run ends the connection
    }
    plan
}

/// Positions enumerated per base scenario by the C07X sweep.
pub const C07X_STEPS: u32 = 96;
pub const C07X_BYTES: u32 = 256;
pub const C07X_OUT: u32 = 128;
/// runs per base scenario: 3 step-positioned causes, 2 causes positioned at a byte of the peer's
/// stream, 1 positioned at a byte of the endpoint's output
pub const C07X_PER_BASE: u64 = 3 * C07X_STEPS as u64 + 2 * C07X_BYTES as u64 + C07X_OUT as u64;

/// Index within one base scenario -> the two leading draws (cause, position).
pub fn c07x_point(r: u64) -> (u32, u32) {
    let s = u64::from(C07X_STEPS);
    let b = u64::from(C07X_BYTES);
    if r < 3 * s {
        ((r / s) as u32, (r % s) as u32)
    } else if r < 3 * s + 2 * b {
        (3 + ((r - 3 * s) / b) as u32, ((r - 3 * s) % b) as u32)
    } else {
        (5, (r - 3 * s - 2 * b) as u32)
    }
}

/// Fault enumeration for C07: the first two draws name the fault (cause, position); every other
/// draw of the run comes from the base scenario's own seed (see batch::mode_of), so that the runs of
/// one base scenario differ only in where the connection is lost.
fn gen_c07x(ch: &mut Choices) -> Plan {
    let cause = ch.choose(6);
    let pos = ch.choose(C07X_STEPS.max(C07X_BYTES).max(C07X_OUT));
    let mut plan = c07_base("C07X", ch, true);
    match cause {
        0 => plan.faults.fin_at_step = Some(1 + u64::from(pos)),
        1 => plan.faults.rst_at_step = Some(1 + u64::from(pos)),
        2 => plan.faults.wr_err_at_step = Some(1 + u64::from(pos)),
        3 => plan.faults.close_after_bytes = Some((u64::from(pos), false)),
        4 => plan.faults.close_after_bytes = Some((u64::from(pos), true)),
        _ => plan.faults.wr_err_after_bytes = Some(u64::from(pos)),
    }
    plan.tags.push(format!("sweep:{}@{pos}", ["fin-step", "rst-step", "wrerr-step", "fin-byte", "rst-byte", "wrerr-outbyte"][cause as usize]));
    plan
}


// ------------------------------------------------------------------------------------------
// C15: MQTT 5 DISCONNECT - at most once, never after the peer's, names the cause

fn gen_c15(ch: &mut Choices) -> Plan {
    let role = if ch.chance(2, 3) { Role::S5 } else { Role::C5 };
    let ver = Ver::V5;
    let mut plan = base_plan("C15", role, ch);
    plan.cfg.use_router = false;
    plan.cfg.ctl_gated = ch.chance(1, 2);
    plan.w_ctl = *ch.pick(&[[1u32, 0, 0], [1, 1, 0], [2, 1, 1]]);
    // the application's services may take time to shut down: whatever completes meanwhile must not be written
    // behind the endpoint's own DISCONNECT
    plan.cfg.svc_slow_shutdown = ch.chance(1, 3);
    plan.p_immediate = *ch.pick(&[0u32, 500, 1000]);
    plan.cfg.max_topic_alias = 4;
    plan.cfg.min_chunk = *ch.pick(&[32 * 1024u32, 0, 16]);
    // some ordinary traffic first
    let n_in = ch.choose(3);
    for i in 0..n_in {
        let qos = ch.choose(2) as u8;
        let pid = if qos > 0 { Some(10 + i as u16) } else { None };
        let mut p = mk_publish(ver, ch, i, qos, pid, 2);
        p.dup = false;
        p.retain = false;
        plan.peer.script.push(step(Pkt::Publish(p), ver, Pre::Connected));
    }
    // 1..3 close initiators, in a random order
    let n_init = 1 + ch.weighted(&[50, 35, 15]);
    let server = role.is_server();
    for k in 0..n_init as u32 {
        let at = ch.choose(plan.peer.script.len() as u32 + 1) as usize;
        match ch.choose(if server { 13 } else { 9 }) {
            0 => {
                // application closes
                let op = match ch.choose(5) {
                    0 => AppOp::Close,
                    1 => AppOp::CloseReason(*ch.pick(&[0x8bu8, 0x00, 0x98])),
                    2 => AppOp::CloseNoReason,
                    3 => AppOp::CloseTwice(*ch.pick(&[0x8bu8, 0x00])),
                    _ => AppOp::ForceClose,
                };
                plan.tags.push(format!("inject:app-{op:?}"));
                let mut ops = vec![op];
                if ch.chance(1, 3) {
                    ops.push(AppOp::Close);
                }
                plan.senders.push(ops);
            }
            1 => {
                // protocol handler asks to disconnect (needs a request that reaches it)
                plan.w_proto = [1, 2, 0];
                plan.tags.push("inject:proto-disconnect".into());
                let p = if server {
                    Pkt::Subscribe(rc::Subscribe { pid: 40 + k as u16, props: Vec::new(), filters: vec![(format!("f/{k}"), 1)] })
                } else {
                    // the client's protocol handler sees publishes it has no resource for
                    Pkt::Publish(mk_publish(ver, ch, 60 + k, 1, Some(60 + k as u16), 2))
                };
                plan.peer.script.insert(at, step(p, ver, Pre::Connected));
            }
            2 => {
                // handler failure
                plan.w_outcome = [1, 0, 2];
                plan.tags.push("inject:handler-error".into());
                let p = mk_publish(ver, ch, 70 + k, 1, Some(70 + k as u16), 2);
                plan.peer.script.insert(at, step(Pkt::Publish(p), ver, Pre::Connected));
            }
            3 => {
                // peer DISCONNECT, with or without a session expiry
                let mut props: Props = Vec::new();
                let mut what = "inject:peer-disconnect";
                if server && ch.chance(1, 3) {
                    // session expiry on DISCONNECT after a zero one in CONNECT is a protocol error
                    props.push((17, PropVal::U32(30)));
                    what = "inject:peer-disconnect-bad-expiry";
                }
                plan.tags.push(what.into());
                let code = *ch.pick(&[0u8, 0x04, 0x81]);
                plan.peer.script.insert(at, step(Pkt::Disconnect(rc::Disconnect { code, props }), ver, Pre::Connected));
                // a client that said goodbye says nothing more
                plan.peer.script.truncate(at + 1);
                if ch.chance(1, 2) {
                    // ... unless it misbehaves: a packet that is a protocol error in itself follows the
                    // DISCONNECT while the application is still handling the DISCONNECT notification, and the
                    // application's control service likes to answer protocol errors with a DISCONNECT of its own
                    let bad = match ch.choose(3) {
                        0 => {
                            let mut p = mk_publish(ver, ch, 85 + k, 0, None, 2);
                            p.topic = String::new();
                            p.props.retain(|(id, _)| *id != 35);
                            p.props.push((35, PropVal::U16(3)));
                            Pkt::Publish(p)
                        }
                        1 => Pkt::PubAck(Ack::ok(77)),
                        _ => {
                            let mut p = mk_publish(ver, ch, 86 + k, 0, None, 2);
                            p.topic = "a/#".into();
                            Pkt::Publish(p)
                        }
                    };
                    plan.peer.script.push(step(bad, ver, Pre::Connected));
                    plan.p_immediate = 0;
                    plan.p_hold = *ch.pick(&[0u32, 500]);
                    plan.w_ctl = [1, 2, 0];
                    plan.tags.push("inject:violation-after-peer-disconnect".into());
                }
            }
            4 => {
                // unknown topic alias -> 0x94
                let len = *ch.pick(&[2usize, 300]);
                let mut p = mk_publish(ver, ch, 80 + k, 0, None, len);
                p.topic = String::new();
                p.props.retain(|(id, _)| *id != 35);
                // an alias that was never bound: inside the advertised maximum (default 32) or beyond it
                p.props.push((35, PropVal::U16(*ch.pick(&[3u16, 32, 33, 500, 65535]))));
                plan.tags.push("inject:unknown-alias:0x94".into());
                plan.peer.script.insert(at, step(Pkt::Publish(p), ver, Pre::Connected));
            }
            5 => {
                // packet too large -> 0x95
                if server {
                    plan.cfg.max_size = 120;
                } else {
                    plan.cfg.client_max_packet_size = Some(120);
                }
                let p = mk_publish(ver, ch, 81 + k, 0, None, 300);
                plan.tags.push("inject:too-large:0x95".into());
                plan.peer.script.insert(at, step(Pkt::Publish(p), ver, Pre::Connected));
            }
            6 => {
                // receive maximum exceeded -> 0x93
                if server {
                    plan.cfg.max_receive = 1;
                } else {
                    plan.cfg.client_receive_max = 1;
                }
                plan.p_immediate = 0;
                let a = mk_publish(ver, ch, 82, 1, Some(82), 2);
                let len = *ch.pick(&[2usize, 300]);
                let b = mk_publish(ver, ch, 83, 1, Some(83), len);
                plan.tags.push("inject:receive-maximum:0x93".into());
                plan.peer.script.insert(at, step(Pkt::Publish(b), ver, Pre::Connected));
                plan.peer.script.insert(at, step(Pkt::Publish(a), ver, Pre::Connected));
            }
            7 => {
                // keep-alive timeout -> 0x8D: the peer goes silent
                if server {
                    plan.peer.connect.keep_alive = 1;
                } else {
                    plan.cfg.client_keepalive_s = 1;
                    plan.peer.auto_ack = false;
                }
                plan.horizon_ms = 9_000;
                plan.tags.push("inject:keep-alive:0x8d".into());
            }
            8 => {
                // control-path error: a second CONNECT / a CONNACK to a client
                let p = if server { Pkt::Connect(Connect::new(ver, "c0", 60_000)) } else { Pkt::ConnAck(rc::ConnAck { session_present: false, code: 0, props: Vec::new() }) };
                plan.tags.push("inject:violation".into());
                plan.peer.script.insert(at, step(p, ver, Pre::Connected));
            }
            9 => {
                // QoS not supported -> 0x9B
                plan.cfg.max_qos = 0;
                plan.cfg.hs_max_qos = None;
                let p = mk_publish(ver, ch, 84 + k, 1, Some(84), 2);
                plan.tags.push("inject:qos-not-supported:0x9b".into());
                plan.peer.script.insert(at, step(Pkt::Publish(p), ver, Pre::Connected));
            }
            10 => {
                // retain not supported -> 0x9A
                plan.cfg.hs_retain_available = Some(false);
                let mut p = mk_publish(ver, ch, 85 + k, 0, None, 2);
                p.retain = true;
                plan.tags.push("inject:retain-not-supported:0x9a".into());
                plan.peer.script.insert(at, step(Pkt::Publish(p), ver, Pre::Connected));
            }
            11 => {
                // subscription identifiers not supported -> 0xA1
                plan.cfg.hs_sub_ids_available = Some(false);
                let p = Pkt::Subscribe(rc::Subscribe { pid: 45, props: vec![(11, PropVal::VarInt(5))], filters: vec![("f/x".into(), 1)] });
                plan.tags.push("inject:sub-ids-not-supported:0xa1".into());
                plan.peer.script.insert(at, step(p, ver, Pre::Connected));
            }
            _ => {
                // undecodable bytes
                let (bytes, what) = undecodable(ch);
                plan.tags.push("inject:undecodable".into());
                plan.peer.script.insert(at, PeerStep { pre: Pre::Connected, bytes, pkt: None, corrupt: Some(what.to_string()), then_close: None });
            }
        }
    }
    // some outbound traffic so that responses and the DISCONNECT compete for the wire
    if ch.chance(1, 2) {
        plan.senders.push(vec![AppOp::PubQ1 { len: 3, pid: None }, AppOp::PubQ0 { len: 2 }]);
    }
    plan.ending = Ending::SettleThenFin;
    plan.max_steps = 12_000;
    plan
}


// ------------------------------------------------------------------------------------------
// C17: MQTT 5 topic aliases always resolve to the right topic

pub const C17_TOPICS: [&str; 5] = ["a", "b/1", "t/5", "x/y", "b/2"];

fn c17_script(ch: &mut Choices, max_alias: u16, tag_base: u32, violate: bool, refusable: bool) -> Vec<PeerStep> {
    let ver = Ver::V5;
    let mut script = Vec::new();
    let n = 2 + ch.choose(7);
    let mut bound: Vec<u16> = Vec::new();
    for i in 0..n {
        let alias = 1 + ch.choose(u32::from(max_alias.max(1))) as u16;
        let topic = *ch.pick(&C17_TOPICS);
        // (a refusal can only be expressed for QoS 1: with refusing handlers every publish is acknowledged)
        let qos = if refusable { 1 } else { ch.choose(2) as u8 };
        let pid = if qos > 0 { Some(100 + i as u16) } else { None };
        // bind/rebind (topic + alias), use (alias only), plain publish
        let kind = if bound.contains(&alias) { ch.weighted(&[30, 50, 20]) } else { ch.weighted(&[60, 0, 40]) };
        let mut p = rc::Publish { dup: false, qos, retain: false, topic: String::new(), pid, props: Vec::new(), payload: crate::world::make_payload(tag_base + i, 3 + (i as usize % 5)) };
        match kind {
            0 => {
                p.topic = topic.to_string();
                p.props.push((35, PropVal::U16(alias)));
                if !bound.contains(&alias) {
                    bound.push(alias);
                }
            }
            1 => p.props.push((35, PropVal::U16(alias))),
            _ => p.topic = topic.to_string(),
        }
        script.push(step(Pkt::Publish(p), ver, Pre::Connected));
    }
    if violate {
        // an alias that was never bound, or one beyond the advertised maximum
        let at = ch.choose(script.len() as u32 + 1) as usize;
        let mut p = rc::Publish { dup: false, qos: 0, retain: false, topic: String::new(), pid: None, props: Vec::new(), payload: crate::world::make_payload(tag_base + 90, 4) };
        if ch.chance(1, 2) {
            // never bound before this point: use an alias no earlier step binds
            let unb = (1..=max_alias.max(1)).find(|a| {
                !script[..at].iter().any(|s| matches!(&s.pkt, Some(Pkt::Publish(q)) if !q.topic.is_empty() && rc::prop_u16(&q.props, 35) == Some(*a)))
            });
            match unb {
                Some(a) => p.props.push((35, PropVal::U16(a))),
                None => {
                    p.topic = "a".into();
                    p.props.push((35, PropVal::U16(max_alias + 1)));
                }
            }
        } else {
            p.topic = "a".into();
            p.props.push((35, PropVal::U16(max_alias + 1 + ch.choose(3) as u16)));
        }
        script.insert(at, step(Pkt::Publish(p), ver, Pre::Connected));
    }
    script
}

fn gen_c17(ch: &mut Choices) -> Plan {
    let role = if ch.chance(2, 3) { Role::S5 } else { Role::C5 };
    let mut plan = base_plan("C17", role, ch);
    plan.cfg.use_router = ch.chance(1, 2);
    plan.p_immediate = *ch.pick(&[1000u32, 0, 500]);
    // a publish that binds an alias may be refused by the application (negative acknowledgement): the
    // binding is made by the packet, not by the handler's verdict
    plan.w_outcome = *ch.pick(&[[1u32, 0, 0], [1, 0, 0], [5, 3, 0]]);
    let mut max_alias = 1 + ch.choose(3) as u16;
    if role.is_server() {
        plan.cfg.max_topic_alias = max_alias;
        plan.conns = 2;
        if ch.chance(1, 4) {
            // the handshake's CONNACK sets the session's Topic Alias Maximum, 0 (aliases switched off)
            // included, whatever the configured value is: what is advertised is what is in force
            plan.cfg.max_topic_alias = *ch.pick(&[32u16, 8, 1, 0]);
            max_alias = ch.choose(4) as u16;
            plan.cfg.hs_topic_alias_max = Some(max_alias);
        }
    } else {
        plan.cfg.client_topic_alias_max = max_alias;
        // what the broker announces for ITS direction is independent of what the client accepts
        if ch.chance(1, 2) {
            plan.peer.connack_props.push((34, PropVal::U16(ch.choose(6) as u16)));
        }
    }
    plan.tags.push(format!("max-alias:{max_alias}"));
    let refusable = plan.w_outcome[1] > 0;
    let v1 = ch.chance(1, 3);
    plan.peer.script = c17_script(ch, max_alias, 0, v1, refusable);
    if role.is_server() {
        let v2 = ch.chance(1, 3);
        plan.peer.script2 = c17_script(ch, max_alias, 1000, v2, refusable);
    }
    plan.ending = Ending::Settle;
    plan
}



/// C19, send window: every combination of configured value, handshake override and the peer's
/// Receive Maximum (MQTT 5), server roles; the workload is C05's.
fn gen_c19w(ch: &mut Choices) -> Plan {
    let mut plan = gen_outbound(OutKind::C05, ch);
    plan.family = "C19W";
    let role = if ch.chance(2, 3) { Role::S5 } else { Role::S3 };
    plan.role = role;
    plan.peer.connect = Connect::new(role.ver(), "c0", 60_000);
    plan.peer.connack_props.clear();
    plan.cfg.max_send = 1 + ch.choose(4) as u16;
    plan.cfg.hs_max_send = if ch.chance(1, 2) { Some(1 + ch.choose(5) as u16) } else { None };
    if role == Role::S5 && ch.chance(3, 4) {
        plan.peer.connect.props.push((33, PropVal::U16(1 + ch.choose(5) as u16)));
    }
    // client-only operations make no sense for a server
    for ops in plan.senders.iter_mut() {
        ops.retain(|o| !matches!(o, AppOp::Subscribe { .. } | AppOp::Unsubscribe { .. }));
        if ops.is_empty() {
            ops.push(AppOp::PubQ1 { len: 2, pid: None });
        }
    }
    // enough senders to fill any window
    while plan.senders.len() < 6 {
        plan.senders.push(vec![AppOp::PubQ1 { len: 1, pid: None }]);
    }
    plan.p_cancel = 0;
    plan
}

/// C19, client side: the limits a MQTT 5 client announces in CONNECT (Receive Maximum, Topic Alias Maximum,
/// Maximum Packet Size) are the ones it enforces on what the broker sends, and the broker's CONNACK values
/// (which bound the client's own sending) do not leak into them. One limit is probed per run.
fn gen_c19c(ch: &mut Choices) -> Plan {
    let role = Role::C5;
    let ver = Ver::V5;
    let mut plan = base_plan("C19C", role, ch);
    plan.cfg.use_router = ch.chance(1, 3);
    plan.cut = *ch.pick(&[Cut::All, Cut::Random]);
    plan.p_immediate = *ch.pick(&[1000u32, 0]);
    // the broker's side of the negotiation: values that differ from the client's in both directions
    if ch.chance(3, 4) {
        plan.peer.connack_props.push((33, PropVal::U16(*ch.pick(&[1u16, 2, 3, 10, 100]))));
    }
    if ch.chance(1, 2) {
        plan.peer.connack_props.push((34, PropVal::U16(*ch.pick(&[0u16, 1, 2, 5, 20]))));
    }
    if ch.chance(1, 2) {
        plan.peer.connack_props.push((39, PropVal::U32(*ch.pick(&[40u32, 90, 150, 100_000]))));
    }
    match ch.choose(3) {
        0 => {
            // Receive Maximum announced by the client
            let r = 1 + ch.choose(3) as u16;
            plan.cfg.client_receive_max = r;
            plan.p_immediate = 0;
            plan.p_hold = 1000;
            plan.tags.push(format!("limit:receive-max:{r}"));
            for i in 0..=r {
                let mut p = mk_publish(ver, ch, 90 + u32::from(i), 1, Some(90 + i), 2);
                p.dup = false;
                p.props.retain(|(id, _)| *id != 35);
                plan.peer.script.push(step(Pkt::Publish(p), ver, Pre::Connected));
            }
        }
        1 => {
            // Topic Alias Maximum announced by the client (0: none accepted)
            let a = ch.choose(4) as u16;
            plan.cfg.client_topic_alias_max = a;
            plan.tags.push(format!("limit:alias:{a}"));
            if a == 0 {
                plan.tags.push("probes-within:0".into());
            }
            for (i, al) in [a, a + 1].iter().enumerate().skip(usize::from(a == 0)) {
                let mut p = mk_publish(ver, ch, 80 + i as u32, 0, None, 2);
                p.props.retain(|(id, _)| *id != 35);
                p.props.push((35, PropVal::U16(*al)));
                plan.peer.script.push(step(Pkt::Publish(p), ver, Pre::Connected));
            }
        }
        _ => {
            // Maximum Packet Size announced by the client (on the Remaining Length, as the codec counts)
            let m = *ch.pick(&[60u32, 120, 200]);
            plan.cfg.client_max_packet_size = Some(m);
            plan.tags.push(format!("limit:max-size:{m}"));
            for (i, target) in [m, m + 1].iter().enumerate() {
                let mut p = mk_publish(ver, ch, 60 + i as u32, 0, None, 0);
                p.props.clear();
                p.topic = format!("t/{}", 60 + i);
                let base = rc::encode(ver, &Pkt::Publish(p.clone()));
                let rem0 = rc::fixed_header(&base).ok().flatten().map_or(0, |h| h.1);
                p.payload = crate::world::make_payload(600 + i as u32, (*target as usize).saturating_sub(rem0));
                plan.peer.script.push(step(Pkt::Publish(p), ver, Pre::Connected));
            }
        }
    }
    plan.ending = Ending::Settle;
    plan
}

// ------------------------------------------------------------------------------------------
// C20: idle and too-slow peers are timed out, live peers are not

/// Push `pkt` as one step at `t_ms`, or cut in two pieces delivered `gap_ms` apart.
fn timed_packet(script: &mut Vec<PeerStep>, pkt: Pkt, ver: Ver, t_ms: u64, split: Option<(usize, u64)>) {
    let bytes = rc::encode(ver, &pkt);
    match split {
        Some((k, gap)) if k > 0 && k < bytes.len() => {
            script.push(PeerStep { pre: Pre::AtMs(t_ms), bytes: bytes[..k].to_vec(), pkt: None, corrupt: None, then_close: None });
            script.push(PeerStep { pre: Pre::AtMs(t_ms + gap), bytes: bytes[k..].to_vec(), pkt: Some(pkt), corrupt: None, then_close: None });
        }
        _ => script.push(PeerStep { pre: Pre::AtMs(t_ms), bytes, pkt: Some(pkt), corrupt: None, then_close: None }),
    }
}

fn gen_c20(ch: &mut Choices) -> Plan {
    let role = pick_role(ch);
    let ver = role.ver();
    let mut plan = base_plan("C20", role, ch);
    plan.cut = Cut::All;
    plan.p_immediate = *ch.pick(&[1000u32, 0]);
    plan.p_hold = if plan.p_immediate == 0 { 500 } else { 0 };
    plan.cfg.disconnect_timeout_s = 1;
    let mode = if role.is_server() { ch.choose(3) } else { 3 };
    if mode < 2 && ch.chance(1, 3) {
        // one busy handler makes the service not ready: the dispatcher pauses reading (and its timers)
        // right after the packet that filled the window, while the peer keeps sending
        plan.cfg.max_receive = 1;
    }
    let mut last_ms: u64 = 0;
    match mode {
        0 => {
            // keep-alive on a server: packets on a coarse grid, then silence
            // (values of 6 and 8 s make a wrong factor visible beyond the 2 s of timer-wheel slack)
            // (and values near the top of the 16-bit range: 1.5 x the value must saturate, not wrap)
            let ka = *ch.pick(&[1u16, 2, 3, 0, 6, 1, 2, 3, 6, 21_846, 30_000, 43_691, 43_692, 43_693, 65_535]);
            plan.peer.connect.keep_alive = ka;
            if ch.chance(1, 4) {
                plan.cfg.hs_keepalive = Some(*ch.pick(&[1u16, 2, 3, 6, 8]));
                if ch.chance(1, 2) {
                    // imposed on a client that asked for more: MQTT 5 announces it in CONNACK
                    plan.peer.connect.keep_alive = 60;
                }
            }
            plan.tags.push("mode:keepalive".into());
            if ch.chance(1, 3) {
                // both timers configured: the frame read-rate timer borrows the connection's single timer slot
                // while a fragmented packet is arriving, the keep-alive timer must be back afterwards
                plan.cfg.frame_read_rate = Some((1 + ch.choose(2) as u16, *ch.pick(&[0u16, 4]), *ch.pick(&[4u32, 64])));
            }
            let n = ch.choose(6);
            let mut t: u64 = 0;
            for i in 0..n {
                t += *ch.pick(&[500u64, 1000, 1000, 2000, 3000, 4000]);
                let pkt = match ch.choose(3) {
                    0 => Pkt::PingReq,
                    1 => Pkt::Publish(mk_publish(ver, ch, i, 0, None, 3)),
                    _ => Pkt::Publish(mk_publish(ver, ch, i, 1, Some(10 + i as u16), 40)),
                };
                let split = if ch.chance(1, 3) { Some((1 + ch.choose(3) as usize, *ch.pick(&[500u64, 1000, 2000]))) } else { None };
                timed_packet(&mut plan.peer.script, pkt, ver, t, split);
                last_ms = t + split.map_or(0, |s| s.1);
            }
            plan.horizon_ms = last_ms + 18_000;
        }
        1 => {
            // frame read rate: a frame that stalls or trickles
            plan.peer.connect.keep_alive = 0;
            let timeout = 1 + ch.choose(2) as u16;
            let max_timeout = *ch.pick(&[0u16, 4, 6]);
            let rate = *ch.pick(&[4u32, 16, 64]);
            plan.cfg.frame_read_rate = Some((timeout, max_timeout, rate));
            plan.cfg.min_chunk = 32 * 1024;
            plan.tags.push("mode:read-rate".into());
            let len = *ch.pick(&[40usize, 300]);
            let pkt = Pkt::Publish(mk_publish(ver, ch, 0, 0, None, len));
            let bytes = rc::encode(ver, &pkt);
            // pieces: first part, then trickle `piece` bytes every `every` ms, possibly never finishing
            let first = 1 + ch.choose(6) as usize;
            let piece = *ch.pick(&[1usize, 8, 32, 128]);
            let every = *ch.pick(&[500u64, 1000, 2000]);
            let finish = ch.chance(2, 3);
            let mut t: u64 = 1000;
            let mut off = first;
            plan.peer.script.push(PeerStep { pre: Pre::AtMs(t), bytes: bytes[..first].to_vec(), pkt: None, corrupt: None, then_close: None });
            let mut pieces = 0;
            while off < bytes.len() && pieces < 12 {
                t += every;
                let end = (off + piece).min(bytes.len());
                let last = end == bytes.len();
                if last && !finish {
                    break;
                }
                plan.peer.script.push(PeerStep { pre: Pre::AtMs(t), bytes: bytes[off..end].to_vec(), pkt: if last { Some(pkt.clone()) } else { None }, corrupt: None, then_close: None });
                off = end;
                pieces += 1;
            }
            last_ms = t;
            if finish && off >= bytes.len() && ch.chance(1, 2) {
                // a second frame behind the first: its first piece is larger than the rate (a live peer), the
                // rest follows 2.5 s later - the state of the first frame's timer must not leak into it
                // (a topic of 280 bytes: no part of the frame can be decoded before nearly all of it has arrived,
                // so every delivered byte but the fixed header counts as undecoded)
                let mut p2 = mk_publish(ver, ch, 1, 0, None, 5);
                p2.topic = format!("t/1/{}", "y".repeat(276));
                p2.props.clear();
                let pkt2 = Pkt::Publish(p2);
                let b2 = rc::encode(ver, &pkt2);
                let r = *ch.pick(&[105usize, 140, 200]);
                t += *ch.pick(&[500u64, 1500]);
                plan.peer.script.push(PeerStep { pre: Pre::AtMs(t), bytes: b2[..r].to_vec(), pkt: None, corrupt: None, then_close: None });
                t += 2500;
                plan.peer.script.push(PeerStep { pre: Pre::AtMs(t), bytes: b2[r..].to_vec(), pkt: Some(pkt2), corrupt: None, then_close: None });
                last_ms = t;
                plan.tags.push("two-frames".into());
            }
            plan.horizon_ms = last_ms + 9_000;
        }
        2 => {
            // connect timeout: CONNECT late, in pieces, or never
            let ct = 1 + ch.choose(3) as u16;
            plan.cfg.connect_timeout_s = ct;
            plan.peer.skip_connect = true;
            plan.peer.connect.keep_alive = 0;
            plan.tags.push("mode:connect-timeout".into());
            let conn = Pkt::Connect(plan.peer.connect.clone());
            match ch.choose(4) {
                0 => {} // never
                1 => {
                    let t = *ch.pick(&[0u64, 500, 1000, 2000, 3000, 5000]);
                    timed_packet(&mut plan.peer.script, conn, ver, t, None);
                    last_ms = t;
                }
                2 => {
                    let t = *ch.pick(&[0u64, 500, 1000]);
                    let gap = *ch.pick(&[500u64, 1000, 2000, 4000]);
                    timed_packet(&mut plan.peer.script, conn, ver, t, Some((1 + ch.choose(8) as usize, gap)));
                    last_ms = t + gap;
                }
                _ => {
                    // a few bytes only
                    let bytes = rc::encode(ver, &conn);
                    plan.peer.script.push(PeerStep { pre: Pre::AtMs(500), bytes: bytes[..4].to_vec(), pkt: None, corrupt: None, then_close: None });
                    last_ms = 500;
                }
            }
            plan.horizon_ms = last_ms + 8_000;
        }
        _ => {
            // a client with a keep-alive keeps its idle connection alive
            let ka = 1 + ch.choose(3) as u16;
            plan.cfg.client_keepalive_s = ka;
            plan.peer.auto_ack = ch.chance(3, 4);
            plan.tags.push("mode:client-keepalive".into());
            if role == Role::C5 && ch.chance(1, 3) {
                // the broker imposes its own keep-alive (CONNACK Server Keep Alive): that is the period the
                // client has to keep, whatever it asked for (more, less, or none at all) and however the
                // application started it (plain, or through the topic router)
                plan.peer.connack_props.push((19, PropVal::U16(1 + ch.choose(3) as u16)));
                plan.cfg.client_keepalive_s = *ch.pick(&[ka, 30, 0, 5]);
                plan.cfg.use_router = ch.chance(1, 2);
            }
            if ch.chance(1, 2) {
                // the application keeps the send window (of one) exhausted while the keep-alive task ticks;
                // a silent peer leaves it exhausted for the whole run
                match role {
                    Role::C5 => plan.peer.connack_props.push((33, PropVal::U16(1))),
                    _ => plan.cfg.max_send = 1,
                }
                plan.senders.push(vec![AppOp::PubQ1 { len: 2, pid: None }, AppOp::PubQ1 { len: 2, pid: None }]);
                if ch.chance(1, 2) {
                    plan.senders.push(vec![AppOp::Ready]);
                }
            }
            if ch.chance(1, 2) {
                let t = *ch.pick(&[1000u64, 2500, 4000]);
                timed_packet(&mut plan.peer.script, Pkt::Publish(mk_publish(ver, ch, 0, 0, None, 3)), ver, t, None);
            }
            plan.horizon_ms = 11_000;
        }
    }
    plan.ending = Ending::Settle;
    plan.max_steps = 20_000;
    plan
}


// ------------------------------------------------------------------------------------------
// C10 at connection level: the handler that reads the payload receives exactly the bytes sent

fn gen_c10c(ch: &mut Choices) -> Plan {
    let role = pick_role(ch);
    let ver = role.ver();
    let mut plan = base_plan("C10C", role, ch);
    plan.cfg.min_chunk = *ch.pick(&[0u32, 1, 4, 1024, 32 * 1024]);
    plan.cfg.max_payload_buf = *ch.pick(&[32 * 1024usize, 64, 1024, 128 * 1024]);
    plan.cfg.rd_hw = *ch.pick(&[16 * 1024 - 24usize, 1024, 64 * 1024]);
    plan.cfg.max_receive_size = 0;
    plan.p_immediate = *ch.pick(&[1000u32, 0, 500]);
    plan.w_payload = *ch.pick(&[[1u32, 0, 0], [0, 1, 0], [2, 2, 1]]);
    plan.cut = match ch.choose(4) {
        0 => Cut::All,
        1 => Cut::Boundary,
        _ => Cut::Random,
    };
    let n = 1 + ch.choose(4);
    let mut total = 0usize;
    for i in 0..n {
        // sizes around chunk and varint boundaries
        let len = *ch.pick(&[0usize, 1, 3, 4, 5, 63, 64, 65, 127, 128, 1023, 1024, 1025, 16_383, 16_384, 32_767, 32_768, 32_769, 70_000, 300 * 1024]);
        if total + len > 400 * 1024 {
            continue;
        }
        total += len;
        let qos = if role.is_server() || ch.chance(1, 2) { ch.choose(3) as u8 } else { ch.choose(2) as u8 };
        let pid = if qos > 0 { Some(10 + i as u16) } else { None };
        let mut p = mk_publish(ver, ch, i, qos, pid, len);
        p.dup = false;
        plan.peer.script.push(step(Pkt::Publish(p), ver, Pre::Connected));
        if ch.chance(1, 3) {
            let x = if role.is_server() { Pkt::PingReq } else { Pkt::PingResp };
            plan.peer.script.push(step(x, ver, Pre::Connected));
        }
    }
    if plan.cut == Cut::Random && total < 600 && ch.chance(1, 2) {
        plan.cut = Cut::Byte;
    }
    plan.ending = Ending::Settle;
    plan.max_steps = 60_000;
    plan
}


// ------------------------------------------------------------------------------------------
// C19: handshake gate, version routing, negotiated limits

fn gen_c19(ch: &mut Choices) -> Plan {
    let role = if ch.chance(1, 2) { Role::S3 } else { Role::S5 };
    let ver = role.ver();
    let v5 = ver == Ver::V5;
    let mut plan = base_plan("C19", role, ch);
    plan.cfg.combined = ch.chance(1, 2);
    plan.cfg.use_router = false;
    plan.p_immediate = *ch.pick(&[1000u32, 0]);
    // how the first bytes are cut
    plan.cut = match ch.choose(4) {
        0 => Cut::All,
        1 => Cut::Byte,
        _ => Cut::Random,
    };
    let kind = ch.weighted(&[40, 15, 10, 10, 5, 10, 5, 5]);
    let mut connect = plan.peer.connect.clone();
    connect.keep_alive = *ch.pick(&[60_000u16, 10, 0, 21_846, 43_692, 65_535]);
    // unusual but legal CONNECT contents; a long user name makes the Remaining Length two bytes long, so
    // that fragmentation can fall inside the fixed header
    match ch.choose(6) {
        0 => {
            connect.username = Some("u".repeat(*ch.pick(&[150usize, 300])));
            connect.password = Some(vec![7; 3]);
        }
        1 => connect.username = Some("user-without-password".into()),
        _ => {}
    }
    plan.peer.connect = connect.clone();
    let raw_connect = |c: &rc::Connect, reserved_flag: bool| -> PeerStep {
        let mut bytes = rc::encode(ver, &Pkt::Connect(c.clone()));
        if reserved_flag {
            if let Ok(Some((_, _, hl))) = rc::fixed_header(&bytes) {
                let off = hl + 2 + c.proto_name.len() + 1;
                bytes[off] |= 0x01;
            }
        }
        PeerStep { pre: Pre::None, bytes, pkt: Some(Pkt::Connect(c.clone())), corrupt: None, then_close: None }
    };
    match kind {
        0 => plan.tags.push("first:connect".into()),
        1 => {
            // something else first
            plan.peer.skip_connect = true;
            let mut p = template(ver, true, ch, 0);
            if matches!(p, Pkt::Connect(_)) {
                p = Pkt::PingReq;
            }
            plan.tags.push(format!("first:other:{}", p.name()));
            plan.peer.script.push(PeerStep { pre: Pre::None, ..step(p, ver, Pre::None) });
        }
        2 => {
            plan.peer.skip_connect = true;
            let mut c = connect.clone();
            c.proto_name = ch.pick(&["MQTX", "MQIsdp", "mqtt", ""]).to_string();
            plan.tags.push("first:bad-name".into());
            plan.peer.script.push(raw_connect(&c, false));
        }
        3 => {
            plan.peer.skip_connect = true;
            let mut c = connect.clone();
            c.level = *ch.pick(&[3u8, 6, 0, 255]);
            plan.tags.push("first:bad-level".into());
            plan.peer.script.push(raw_connect(&c, false));
        }
        4 => {
            plan.peer.skip_connect = true;
            plan.tags.push("first:reserved-flag".into());
            plan.peer.script.push(raw_connect(&connect, true));
        }
        5 => {
            let code = if v5 { *ch.pick(&[0x87u8, 0x80, 0x86, 0x95]) } else { 1 + ch.choose(5) as u8 };
            plan.cfg.hs = HsOutcome::Refuse(code);
            plan.tags.push(format!("first:refused:{code}"));
        }
        6 => {
            plan.cfg.hs = HsOutcome::Error;
            plan.tags.push("first:hs-error".into());
        }
        _ => {
            plan.cfg.hs_gated = true;
            plan.tags.push("first:slow-handshake".into());
        }
    }
    let accepted = matches!(kind, 0 | 7);
    // traffic pipelined right behind the first packet: must wait for (or never see) the application
    let n_pipe = 1 + ch.choose(2);
    for i in 0..n_pipe {
        let mut p = mk_publish(ver, ch, 50 + i, 0, None, 3);
        p.dup = false;
        p.retain = false;
        // small (fits every inbound size limit), no alias
        p.props.clear();
        let _ = v5;
        plan.peer.script.push(step(Pkt::Publish(p), ver, Pre::None));
    }
    if accepted {
        // one limit and its probes
        match ch.choose(if v5 { 5 } else { 2 }) {
            0 => {
                // inbound maximum packet size (on the Remaining Length, as the codecs count)
                let mut m = *ch.pick(&[60u32, 200]);
                plan.cfg.max_size = m;
                let cfg_m = m;
                if v5 && ch.chance(1, 2) {
                    // the handshake announces another value: that one is the negotiated limit
                    // (0: the handshake lifts the configured limit, nothing is announced)
                    let o = *ch.pick(&[50u32, 120, 0]);
                    plan.cfg.hs_max_packet_size = Some(o);
                    m = o;
                }
                plan.tags.push(format!("limit:max-size:{m}"));
                let targets = if m == 0 {
                    plan.tags.push("probes-within:2".into());
                    [cfg_m, cfg_m + 1]
                } else {
                    [m, m + 1]
                };
                // the probe beyond the limit is, half of the time, not a PUBLISH: a SUBSCRIBE whose filter is
                // padded so that its Remaining Length is exactly limit + 1
                let sub_beyond = m != 0 && ch.chance(1, 2);
                for (i, target) in targets.iter().enumerate() {
                    if sub_beyond && i == 1 {
                        let mk = |pad: usize| rc::Subscribe { pid: 77, props: Vec::new(), filters: vec![(format!("t/61/{}", "z".repeat(pad)), 0)] };
                        let base = rc::encode(ver, &Pkt::Subscribe(mk(0)));
                        let rem0 = rc::fixed_header(&base).ok().flatten().map_or(0, |h| h.1);
                        let sub = mk((*target as usize).saturating_sub(rem0));
                        plan.peer.script.push(step(Pkt::Subscribe(sub), ver, Pre::Connected));
                        continue;
                    }
                    // payload sized so that the frame's Remaining Length is exactly `target`
                    let mut p = mk_publish(ver, ch, 60 + i as u32, 0, None, 0);
                    p.props.clear();
                    p.topic = format!("t/{}", 60 + i);
                    let base = rc::encode(ver, &Pkt::Publish(p.clone()));
                    let rem0 = rc::fixed_header(&base).ok().flatten().map_or(0, |h| h.1);
                    p.payload = crate::world::make_payload(600 + i as u32, (*target as usize).saturating_sub(rem0));
                    plan.peer.script.push(step(Pkt::Publish(p), ver, Pre::Connected));
                }
            }
            1 => {
                let q = ch.choose(2) as u8;
                plan.cfg.max_qos = q;
                plan.tags.push(format!("limit:max-qos:{q}"));
                for (i, qos) in [q, q + 1].iter().enumerate() {
                    let pid = if *qos > 0 { Some(70 + i as u16) } else { None };
                    let mut p = mk_publish(ver, ch, 70 + i as u32, *qos, pid, 2);
                    p.dup = false;
                    p.retain = false;
                    plan.peer.script.push(step(Pkt::Publish(p), ver, Pre::Connected));
                }
            }
            2 => {
                // handshake override of Maximum QoS
                let q = ch.choose(2) as u8;
                plan.cfg.max_qos = 2;
                plan.cfg.hs_max_qos = Some(q);
                plan.tags.push(format!("limit:max-qos:{q}"));
                for (i, qos) in [q, q + 1].iter().enumerate() {
                    let pid = if *qos > 0 { Some(70 + i as u16) } else { None };
                    let mut p = mk_publish(ver, ch, 70 + i as u32, *qos, pid, 2);
                    p.dup = false;
                    p.retain = false;
                    plan.peer.script.push(step(Pkt::Publish(p), ver, Pre::Connected));
                }
            }
            3 => {
                // topic alias maximum: configured or overridden
                let mut a = 1 + ch.choose(3) as u16;
                if ch.chance(1, 2) {
                    plan.cfg.max_topic_alias = a;
                } else {
                    plan.cfg.max_topic_alias = 8;
                    // (0: the handshake switches topic aliases off)
                    a = ch.choose(4) as u16;
                    plan.cfg.hs_topic_alias_max = Some(a);
                }
                plan.tags.push(format!("limit:alias:{a}"));
                if a == 0 {
                    plan.tags.push("probes-within:0".into());
                }
                for (i, al) in [a, a + 1].iter().enumerate().skip(usize::from(a == 0)) {
                    let mut p = mk_publish(ver, ch, 80 + i as u32, 0, None, 2);
                    p.props.retain(|(id, _)| *id != 35);
                    p.props.push((35, PropVal::U16(*al)));
                    plan.peer.script.push(step(Pkt::Publish(p), ver, Pre::Connected));
                }
            }
            _ => {
                // receive maximum: configured or overridden
                let r = 1 + ch.choose(2) as u16;
                match ch.choose(4) {
                    0 | 1 => plan.cfg.max_receive = r,
                    2 => {
                        plan.cfg.max_receive = 8;
                        plan.cfg.hs_receive_max = Some(r);
                    }
                    _ => {
                        // the override replaces no limit at all (0), or a smaller one
                        plan.cfg.max_receive = if ch.chance(1, 2) { 0 } else { r - 1 };
                        plan.cfg.hs_receive_max = Some(r);
                    }
                }
                plan.p_immediate = 0;
                plan.p_hold = 1000;
                plan.tags.push(format!("limit:receive-max:{r}"));
                for i in 0..=r {
                    let mut p = mk_publish(ver, ch, 90 + u32::from(i), 1, Some(90 + i), 2);
                    p.dup = false;
                    plan.peer.script.push(step(Pkt::Publish(p), ver, Pre::Connected));
                }
            }
        }
    }
    if plan.cfg.max_size != 0 {
        // the inbound size limit applies to CONNECT as well: keep it small when that limit is probed
        plan.peer.connect.username = None;
        plan.peer.connect.password = None;
    }
    plan.ending = Ending::Settle;
    plan
}

// ------------------------------------------------------------------------------------------
// C16: no sequence of well-formed peer packets can panic or hang an endpoint

pub fn template(ver: Ver, server_ep: bool, ch: &mut Choices, i: u32) -> Pkt {
    let pid = 1 + ch.choose(3) as u16;
    let v5 = ver == Ver::V5;
    let plen = *ch.pick(&[0usize, 1, 2, 3, 4, 40, 300]);
    // what a peer may send to a server endpoint / to a client endpoint, plus everything else
    // that is well-formed for the version (unexpected direction included)
    match ch.choose(if v5 { 17 } else { 15 }) {
        0 => Pkt::Publish(mk_publish(ver, ch, i, 0, None, plen)),
        1 => Pkt::Publish(mk_publish(ver, ch, i, 1, Some(pid), plen)),
        2 => Pkt::Publish(mk_publish(ver, ch, i, 2, Some(pid), plen)),
        3 => Pkt::PubAck(Ack::ok(pid)),
        4 => Pkt::PubRec(Ack::ok(pid)),
        5 => Pkt::PubRel(Ack::ok(pid)),
        6 => Pkt::PubComp(Ack::ok(pid)),
        7 => Pkt::Subscribe(rc::Subscribe { pid, props: Vec::new(), filters: vec![(format!("f/{i}"), 1)] }),
        8 => Pkt::SubAck(rc::SubAck { pid, props: Vec::new(), codes: vec![0] }),
        9 => Pkt::Unsubscribe(rc::Unsubscribe { pid, props: Vec::new(), filters: vec![format!("f/{i}")] }),
        10 => Pkt::UnsubAck(rc::SubAck { pid, props: Vec::new(), codes: if v5 { vec![0] } else { Vec::new() } }),
        11 => Pkt::PingReq,
        12 => Pkt::PingResp,
        13 => Pkt::Disconnect(rc::Disconnect { code: 0, props: Vec::new() }),
        14 => {
            if server_ep {
                Pkt::Connect(Connect::new(ver, "c0", 60_000))
            } else {
                Pkt::ConnAck(rc::ConnAck { session_present: false, code: 0, props: Vec::new() })
            }
        }
        15 => Pkt::Auth(rc::Disconnect { code: 0x18, props: vec![(21, PropVal::Str("m".into()))] }),
        _ => Pkt::Disconnect(rc::Disconnect { code: 0x04, props: Vec::new() }),
    }
}

fn gen_c16(ch: &mut Choices) -> Plan {
    let role = pick_role(ch);
    let ver = role.ver();
    let mut plan = base_plan("C16", role, ch);
    plan.p_immediate = *ch.pick(&[1000u32, 0, 500]);
    // some handlers stay busy until the closing phase
    plan.p_hold = *ch.pick(&[0u32, 0, 400]);
    plan.w_payload = *ch.pick(&[[1u32, 0, 0], [3, 2, 1]]);
    plan.cfg.min_chunk = *ch.pick(&[32 * 1024u32, 0, 2]);
    // busy application state: outstanding sends of every kind
    if ch.chance(1, 2) {
        let n = 1 + ch.choose(3);
        for _ in 0..n {
            let mut ops = Vec::new();
            match ch.choose(5) {
                0 => ops.push(AppOp::PubQ1 { len: 3, pid: None }),
                1 => {
                    ops.push(AppOp::PubQ2 { len: 3, pid: None });
                    ops.push(AppOp::Release);
                }
                2 => {
                    if role.is_server() {
                        ops.push(AppOp::PubQ1 { len: 1, pid: None });
                    } else {
                        ops.push(AppOp::Subscribe { n: 1, pid: None });
                    }
                }
                3 => ops.push(AppOp::StreamQ1 { size: 10, chunks: vec![4, 6], pid: None }),
                _ => ops.push(AppOp::Ready),
            }
            plan.senders.push(ops);
        }
        // the peer does not acknowledge on its own: whatever acks arrive are the random ones
        plan.peer.auto_ack = ch.chance(1, 2);
    }
    let before_handshake = ch.chance(1, 6);
    let n = 1 + ch.weighted(&[30, 25, 15, 10, 8, 6, 4, 2]) as u32;
    for i in 0..n {
        let p = template(ver, role.is_server(), ch, i);
        let pre = if before_handshake && i == 0 { Pre::None } else { Pre::Connected };
        plan.peer.script.push(step(p, ver, pre));
    }
    // motif: a publish whose payload arrives in pieces right after a publish with the same id
    // (refused or failing while the remaining chunks are still on their way)
    if ch.chance(1, 4) {
        let pid = 1 + ch.choose(3) as u16;
        let at = ch.choose(plan.peer.script.len() as u32 + 1) as usize;
        let q1 = 1 + ch.choose(2) as u8;
        let q2 = 1 + ch.choose(2) as u8;
        let len = *ch.pick(&[300usize, 40, 2000]);
        let a = Pkt::Publish(mk_publish(ver, ch, 100, q1, Some(pid), 2));
        let b = Pkt::Publish(mk_publish(ver, ch, 101, q2, Some(pid), len));
        plan.peer.script.insert(at, step(b, ver, Pre::Connected));
        plan.peer.script.insert(at, step(a, ver, Pre::Connected));
        plan.cfg.min_chunk = *ch.pick(&[0u32, 2]);
    }
    if !before_handshake && ch.chance(1, 6) {
        // motif: request A completes, request B (dispatched while A was pending) stays busy, then a packet
        // that can only be a protocol violation arrives: it must end the connection without waiting for B
        let a = Pkt::Publish(mk_publish(ver, ch, 110, 1, Some(7), 2));
        let b = Pkt::Publish(mk_publish(ver, ch, 111, 1, Some(8), 2));
        let viol = if ver == Ver::V5 {
            let mut p = mk_publish(ver, ch, 112, 0, None, 2);
            p.topic = String::new();
            p.props.retain(|(id, _)| *id != 35);
            p.props.push((35, PropVal::U16(9)));
            Pkt::Publish(p)
        } else {
            Pkt::Publish(mk_publish(ver, ch, 112, 1, Some(8), 2))
        };
        plan.peer.script.insert(0, step(viol, ver, Pre::SawFinalAck(7, 1)));
        plan.peer.script.insert(0, step(b, ver, Pre::Connected));
        plan.peer.script.insert(0, step(a, ver, Pre::Connected));
        plan.p_immediate = 0;
        plan.p_hold = 500;
        plan.tags.push("motif:violation-behind-busy-handler".into());
    }
    if ch.chance(1, 10) {
        // values at the edge of their range inside otherwise ordinary packets: topic names of (nearly)
        // 65535 bytes, packet identifier 65535, SUBSCRIBE with many filters, an empty payload
        let at = ch.choose(plan.peer.script.len() as u32 + 1) as usize;
        let pkt = match ch.choose(4) {
            0 | 1 => {
                let qos = ch.choose(3) as u8;
                let mut p = mk_publish(ver, ch, 120, qos, if qos > 0 { Some(65_535) } else { None }, 0);
                p.topic = "x".repeat(*ch.pick(&[65_535usize, 65_534, 65_533, 65_532, 65_531, 32_768]));
                p.props.clear();
                Pkt::Publish(p)
            }
            2 => Pkt::Subscribe(rc::Subscribe { pid: 65_535, props: Vec::new(), filters: (0..40).map(|k| (format!("many/{k}/#"), (k % 3) as u8)).collect() }),
            _ => Pkt::Unsubscribe(rc::Unsubscribe { pid: 65_535, props: Vec::new(), filters: (0..40).map(|k| format!("never/subscribed/{k}")).collect() }),
        };
        plan.peer.script.insert(at, step(pkt, ver, Pre::Connected));
        if plan.cut == Cut::Byte || plan.cut == Cut::Boundary {
            plan.cut = Cut::Random;
        }
        plan.tags.push("edge-values".into());
    }
    if ver == Ver::V5 && !before_handshake && ch.chance(1, 6) {
        // motif: the peer announced a very small Maximum Packet Size (legal: any non-zero value), and then
        // sends requests whose answers cannot fit - a SUBSCRIBE / UNSUBSCRIBE with many filters, QoS 1 / 2
        // publishes. The answers must not be written; encoding them must not panic either
        let m = *ch.pick(&[1u32, 2, 3, 4, 5, 6, 7, 8, 12, 20, 64]);
        if role.is_server() {
            plan.peer.connect.props.push((39, PropVal::U32(m)));
        } else {
            plan.peer.connack_props.push((39, PropVal::U32(m)));
        }
        let at = ch.choose(plan.peer.script.len() as u32 + 1) as usize;
        let n = *ch.pick(&[1usize, 20, 80]);
        let pkt = match ch.choose(if role.is_server() { 4 } else { 2 }) {
            0 => Pkt::Publish(mk_publish(ver, ch, 130, 1, Some(0x5001), 2)),
            1 => Pkt::Publish(mk_publish(ver, ch, 131, 2, Some(0x5002), 2)),
            2 => Pkt::Subscribe(rc::Subscribe { pid: 0x5003, props: Vec::new(), filters: (0..n).map(|k| (format!("m/{k}"), (k % 3) as u8)).collect() }),
            _ => Pkt::Unsubscribe(rc::Unsubscribe { pid: 0x5004, props: Vec::new(), filters: (0..n).map(|k| format!("m/{k}")).collect() }),
        };
        plan.peer.script.insert(at, step(pkt, ver, Pre::Connected));
        plan.tags.push(format!("peer-max-packet:{m}"));
    }
    if before_handshake && role.is_server() {
        // the first packet replaces CONNECT
        plan.peer.skip_connect = true;
    }
    // liveness probe at the end: a request every live connection must answer
    let probe = if role.is_server() {
        Pkt::PingReq
    } else {
        Pkt::Publish(rc::Publish { dup: false, qos: 1, retain: false, topic: "probe".into(), pid: Some(0x6001), props: Vec::new(), payload: vec![1] })
    };
    plan.peer.script.push(step(probe, ver, Pre::Connected));
    plan.ending = Ending::Settle;
    plan
}


// ------------------------------------------------------------------------------------------
// C16X: every packet sequence of length 1..3 over the role's alphabet, five application states

pub const C16X_ROLES: [Role; 4] = [Role::S5, Role::S3, Role::C5, Role::C3];
pub const C16X_STATES: u64 = 5;

/// Size of the packet alphabet: id-carrying templates with ids {1, 2}, the others once.
pub fn c16x_alphabet_len(ver: Ver) -> u64 {
    if ver == Ver::V5 { 28 } else { 23 }
}

/// Letter `a` of the alphabet as a packet (`i` only names topics / filters).
pub fn c16x_letter(ver: Ver, server_ep: bool, ch: &mut Choices, a: u32, i: u32) -> Pkt {
    let v5 = ver == Ver::V5;
    if a < 20 {
        let pid = 1 + (a % 2) as u16;
        match a / 2 {
            0 => Pkt::Publish(mk_publish(ver, ch, i, 1, Some(pid), 2)),
            1 => Pkt::Publish(mk_publish(ver, ch, i, 2, Some(pid), 2)),
            2 => Pkt::PubAck(Ack::ok(pid)),
            3 => Pkt::PubRec(Ack::ok(pid)),
            4 => Pkt::PubRel(Ack::ok(pid)),
            5 => Pkt::PubComp(Ack::ok(pid)),
            6 => Pkt::Subscribe(rc::Subscribe { pid, props: Vec::new(), filters: vec![(format!("f/{i}"), 1)] }),
            7 => Pkt::SubAck(rc::SubAck { pid, props: Vec::new(), codes: vec![0] }),
            8 => Pkt::Unsubscribe(rc::Unsubscribe { pid, props: Vec::new(), filters: vec![format!("f/{i}")] }),
            _ => Pkt::UnsubAck(rc::SubAck { pid, props: Vec::new(), codes: if v5 { vec![0] } else { Vec::new() } }),
        }
    } else {
        match a - 20 {
            0 => Pkt::Publish(mk_publish(ver, ch, i, 0, None, 2)),
            1 => Pkt::PingReq,
            2 => Pkt::PingResp,
            3 => {
                if server_ep {
                    Pkt::Connect(Connect::new(ver, "c0", 60_000))
                } else {
                    Pkt::ConnAck(rc::ConnAck { session_present: false, code: 0, props: Vec::new() })
                }
            }
            4 => Pkt::Disconnect(rc::Disconnect { code: 0, props: Vec::new() }),
            5 => Pkt::Auth(rc::Disconnect { code: 0x18, props: vec![(21, PropVal::Str("m".into()))] }),
            6 => Pkt::Disconnect(rc::Disconnect { code: 0x04, props: Vec::new() }),
            _ => {
                // PUBLISH that names its topic by an alias nobody ever bound
                let mut p = mk_publish(ver, ch, i, 0, None, 2);
                p.topic = String::new();
                p.props.retain(|(id, _)| *id != 35);
                p.props.push((35, PropVal::U16(9)));
                Pkt::Publish(p)
            }
        }
    }
}

fn c16x_block(max_len_le2: bool) -> u64 {
    C16X_ROLES
        .iter()
        .map(|r| {
            let a = c16x_alphabet_len(r.ver());
            C16X_STATES * if max_len_le2 { a + a * a } else { a * a * a }
        })
        .sum()
}

/// Number of points of the enumeration: all sequences of length 1 and 2 first, then length 3.
pub fn c16x_total() -> u64 {
    c16x_block(true) + c16x_block(false)
}

/// Number of points that cover every sequence of length <= 2.
pub fn c16x_total_le2() -> u64 {
    c16x_block(true)
}

/// Point `p` (< c16x_total()) -> leading draws [role, state, len-1, letters...].
pub fn c16x_point(mut p: u64) -> Vec<u32> {
    let le2 = p < c16x_block(true);
    if !le2 {
        p -= c16x_block(true);
    }
    for (ri, r) in C16X_ROLES.iter().enumerate() {
        let a = c16x_alphabet_len(r.ver());
        let per_state = if le2 { a + a * a } else { a * a * a };
        let n = C16X_STATES * per_state;
        if p >= n {
            p -= n;
            continue;
        }
        let state = p / per_state;
        let mut q = p % per_state;
        let len = if le2 {
            if q < a {
                1
            } else {
                q -= a;
                2
            }
        } else {
            3
        };
        let mut v = vec![ri as u32, state as u32, len - 1];
        let mut letters = Vec::new();
        for _ in 0..len {
            letters.push((q % a) as u32);
            q /= a;
        }
        letters.reverse();
        v.extend(letters);
        return v;
    }
    unreachable!("c16x_point out of range")
}

fn gen_c16x(ch: &mut Choices) -> Plan {
    let role = C16X_ROLES[ch.choose(4) as usize];
    let state = ch.choose(C16X_STATES as u32);
    let len = 1 + ch.choose(3);
    let ver = role.ver();
    let a = c16x_alphabet_len(ver) as u32;
    let letters: Vec<u32> = (0..len).map(|_| ch.choose(a)).collect();
    let mut plan = base_plan("C16X", role, ch);
    plan.cfg.min_chunk = *ch.pick(&[32 * 1024u32, 0, 2]);
    // application state
    match state {
        // idle, handlers complete at once
        0 => plan.p_immediate = 1000,
        // idle, handlers gated (completed by the simulator in a seeded order, some only in the closing phase)
        1 => {
            plan.p_immediate = 0;
            plan.p_hold = 400;
        }
        // busy: an at-least-once and an exactly-once send outstanding, the peer stays silent
        2 => {
            plan.p_immediate = 500;
            plan.senders.push(vec![AppOp::PubQ1 { len: 3, pid: None }]);
            plan.senders.push(vec![AppOp::PubQ2 { len: 3, pid: None }, AppOp::Release]);
            plan.peer.auto_ack = false;
        }
        // busy: streamed send in progress, ready(), subscribe (client) / second publish (server); peer acknowledges
        3 => {
            plan.p_immediate = 500;
            plan.senders.push(vec![AppOp::StreamQ1 { size: 10, chunks: vec![4, 6], pid: None }]);
            plan.senders.push(vec![AppOp::Ready]);
            plan.senders.push(vec![if role.is_server() { AppOp::PubQ1 { len: 1, pid: None } } else { AppOp::Subscribe { n: 1, pid: None } }]);
            plan.peer.auto_ack = true;
        }
        // the sequence comes instead of the handshake
        _ => {
            plan.p_immediate = 500;
            if role.is_server() {
                plan.peer.skip_connect = true;
            }
        }
    }
    for (i, l) in letters.iter().enumerate() {
        let p = c16x_letter(ver, role.is_server(), ch, *l, i as u32);
        let pre = if state == 4 && i == 0 { Pre::None } else { Pre::Connected };
        plan.peer.script.push(step(p, ver, pre));
    }
    plan.tags.push(format!("enum:state{state}:{}", letters.iter().map(|l| l.to_string()).collect::<Vec<_>>().join(".")));
    let probe = if role.is_server() {
        Pkt::PingReq
    } else {
        Pkt::Publish(rc::Publish { dup: false, qos: 1, retain: false, topic: "probe".into(), pid: Some(0x6001), props: Vec::new(), payload: vec![1] })
    };
    plan.peer.script.push(step(probe, ver, Pre::Connected));
    plan.ending = Ending::Settle;
    plan
}


// ------------------------------------------------------------------------------------------
// C04X: every completion order x every immediate / deferred mix of 2..4 concurrent requests

/// points per request set: sum over n = 2..4 of n! * 2^n, for each of the four roles
pub const C04X_PER_SET: u64 = 4 * (2 * 4 + 6 * 8 + 24 * 16);

/// Point `r` (< C04X_PER_SET) -> leading draws [role, n - 2, permutation index, mask].
pub fn c04x_point(mut r: u64) -> Vec<u32> {
    let per_role = C04X_PER_SET / 4;
    let role = r / per_role;
    r %= per_role;
    for (n, fact) in [(2u64, 2u64), (3, 6), (4, 24)] {
        let block = fact * (1 << n);
        if r < block {
            return vec![role as u32, (n - 2) as u32, (r / (1 << n)) as u32, (r % (1 << n)) as u32];
        }
        r -= block;
    }
    unreachable!("c04x_point out of range")
}

/// k-th permutation of 0..n (factoradic).
pub fn nth_permutation(n: usize, mut k: u32) -> Vec<u32> {
    let mut items: Vec<u32> = (0..n as u32).collect();
    let mut out = Vec::new();
    for i in (1..=n).rev() {
        let f: u32 = (1..i as u32).product();
        let j = (k / f) as usize;
        k %= f;
        out.push(items.remove(j.min(items.len() - 1)));
    }
    out
}

fn gen_c04x(ch: &mut Choices) -> Plan {
    let role = C16X_ROLES[ch.choose(4) as usize];
    let n = 2 + ch.choose(3) as usize;
    let perm = ch.choose(24);
    let mask = ch.choose(16);
    let ver = role.ver();
    let mut plan = base_plan("C04X", role, ch);
    plan.cfg.min_chunk = 32 * 1024;
    // the request set: drawn from the set's own seed, identical for every point of the set
    for i in 0..n as u32 {
        let wctl = if role.is_server() { 12 } else { 0 };
        let pkt = match ch.weighted(&[40, 25, wctl, wctl, wctl]) {
            0 => Pkt::Publish(mk_publish(ver, ch, i, 1, Some(1 + i as u16), 3)),
            1 => Pkt::Publish(mk_publish(ver, ch, i, 2, Some(1 + i as u16), 3)),
            2 => Pkt::Subscribe(rc::Subscribe { pid: 1 + i as u16, props: Vec::new(), filters: vec![(format!("f/{i}"), 1)] }),
            3 => Pkt::Unsubscribe(rc::Unsubscribe { pid: 1 + i as u16, props: Vec::new(), filters: vec![format!("f/{i}")] }),
            _ => Pkt::PingReq,
        };
        plan.peer.script.push(step(pkt, ver, Pre::Connected));
    }
    let fact: u32 = (1..=n as u32).product();
    plan.gate_order = nth_permutation(n, perm % fact);
    plan.immediate_mask = (0..n).map(|k| mask & (1 << k) != 0).collect();
    plan.tags.push(format!("enum:order{:?}:mask{:0w$b}", plan.gate_order, mask % (1 << n), w = n));
    // with and without write back-pressure episodes
    if ch.chance(1, 3) {
        plan.faults.p_wr_stall = 30;
        plan.cfg.wr_hw = 64;
        plan.cfg.wr_lw = 16;
    }
    plan.ending = Ending::Settle;
    plan
}


// ------------------------------------------------------------------------------------------
// C11X: every history of length 1..4 over {PUBLISH q1, PUBLISH q2, SUBSCRIBE, UNSUBSCRIBE, PUBREL} x ids {1,2}

pub const C11X_MODES: u64 = 4;

/// letters: servers 10 (5 kinds x 2 ids), clients 6 (PUBLISH q1, PUBLISH q2, PUBREL x 2 ids)
pub fn c11x_alphabet_len(role: Role) -> u64 {
    if role.is_server() { 10 } else { 6 }
}

fn c11x_block(le3: bool) -> u64 {
    C16X_ROLES
        .iter()
        .map(|r| {
            let a = c11x_alphabet_len(*r);
            C11X_MODES * if le3 { a + a * a + a * a * a } else { a * a * a * a }
        })
        .sum()
}

pub fn c11x_total() -> u64 {
    c11x_block(true) + c11x_block(false)
}

pub fn c11x_total_le3() -> u64 {
    c11x_block(true)
}

/// Point `p` (< c11x_total()) -> leading draws [role, mode, len-1, letters...].
pub fn c11x_point(mut p: u64) -> Vec<u32> {
    let le3 = p < c11x_block(true);
    if !le3 {
        p -= c11x_block(true);
    }
    for (ri, r) in C16X_ROLES.iter().enumerate() {
        let a = c11x_alphabet_len(*r);
        let per_mode = if le3 { a + a * a + a * a * a } else { a * a * a * a };
        let n = C11X_MODES * per_mode;
        if p >= n {
            p -= n;
            continue;
        }
        let mode = p / per_mode;
        let mut q = p % per_mode;
        let len = if le3 {
            if q < a {
                1
            } else if q < a + a * a {
                q -= a;
                2
            } else {
                q -= a + a * a;
                3
            }
        } else {
            4
        };
        let mut letters = Vec::new();
        for _ in 0..len {
            letters.push((q % a) as u32);
            q /= a;
        }
        letters.reverse();
        let mut v = vec![ri as u32, mode as u32, len - 1];
        v.extend(letters);
        return v;
    }
    unreachable!("c11x_point out of range")
}

fn gen_c11x(ch: &mut Choices) -> Plan {
    let role = C16X_ROLES[ch.choose(4) as usize];
    let mode = ch.choose(C11X_MODES as u32);
    let len = 1 + ch.choose(4);
    let a = c11x_alphabet_len(role) as u32;
    let letters: Vec<u32> = (0..len).map(|_| ch.choose(a)).collect();
    let ver = role.ver();
    let mut plan = base_plan("C11X", role, ch);
    plan.cut = *ch.pick(&[Cut::All, Cut::Random]);
    plan.cfg.use_router = ch.chance(1, 3);
    // handler behaviour: 0 all immediate; 1 gated, completed in a seeded order; 2 gated, negative
    // outcomes (v5) and some held until the closing phase; 3 gated, and PUBREL does not wait for PUBREC
    match mode {
        0 => plan.p_immediate = 1000,
        1 | 3 => plan.p_immediate = 0,
        _ => {
            plan.p_immediate = 200;
            plan.w_outcome = [6, 3, 0];
            plan.p_hold = 300;
        }
    }
    let mut q2_count = [0u32; 3];
    for (i, l) in letters.iter().enumerate() {
        let pid = 1 + (l % 2) as u16;
        let kind = if role.is_server() { l / 2 } else { [0u32, 1, 4][(l / 2) as usize] };
        let i = i as u32;
        let st = match kind {
            0 | 1 => {
                let qos = 1 + kind as u8;
                let mut p = mk_publish(ver, ch, i, qos, Some(pid), 2);
                p.dup = false;
                if qos == 2 {
                    q2_count[pid as usize] += 1;
                }
                step(Pkt::Publish(p), ver, Pre::Connected)
            }
            2 => step(Pkt::Subscribe(rc::Subscribe { pid, props: Vec::new(), filters: vec![(format!("f/{i}"), 1)] }), ver, Pre::Connected),
            3 => step(Pkt::Unsubscribe(rc::Unsubscribe { pid, props: Vec::new(), filters: vec![format!("f/{i}")] }), ver, Pre::Connected),
            _ => {
                let n = q2_count[pid as usize];
                let pre = if mode != 3 && n > 0 { Pre::SawPubRec(pid, n) } else { Pre::Connected };
                step(Pkt::PubRel(Ack::ok(pid)), ver, pre)
            }
        };
        plan.peer.script.push(st);
    }
    plan.tags.push(format!("enum:mode{mode}:{}", letters.iter().map(|l| l.to_string()).collect::<Vec<_>>().join(".")));
    plan.ending = Ending::Settle;
    plan
}


// ------------------------------------------------------------------------------------------
// C13X: every short sequence of external events against the waiter queue

pub const C13X_LETTERS: u64 = 27;
pub const C13X_KITS: u64 = 6;
pub const C13X_CONFIGS: u64 = 4 * 2 * C13X_KITS; // roles x windows x kits
pub const C13X_MAX_LEN: u32 = 4;

fn c13x_letter(l: u32) -> crate::plan::ExtStep {
    use crate::plan::{ExtAct, ExtStep};
    match l {
        0..=2 => ExtStep { act: ExtAct::Go(l as usize), delay: 255 },
        3..=5 => ExtStep { act: ExtAct::Cancel(l as usize - 3), delay: 255 },
        6 => ExtStep { act: ExtAct::Ack, delay: 255 },
        7 => ExtStep { act: ExtAct::StallOn, delay: 255 },
        8 => ExtStep { act: ExtAct::StallOff, delay: 255 },
        // an operation started, or a waiting one dropped, 0 / 1 / 2 task polls behind the previous letter:
        // between an event and the wake-up it causes
        _ => {
            let m = l - 9; // 0..18: (go | cancel) x sender x delay
            let delay = (m % 3) as u8;
            let who = ((m / 3) % 3) as usize;
            if m / 9 == 0 { ExtStep { act: ExtAct::Go(who), delay } } else { ExtStep { act: ExtAct::Cancel(who), delay } }
        }
    }
}

/// number of points with sequences of length exactly `len`
fn c13x_block(len: u32) -> u64 {
    C13X_CONFIGS * C13X_LETTERS.pow(len)
}

pub fn c13x_total_le(len: u32) -> u64 {
    (1..=len).map(c13x_block).sum()
}

pub fn c13x_total() -> u64 {
    c13x_total_le(C13X_MAX_LEN)
}

/// Point `p` (< c13x_total()) -> leading draws [role, window, kit, len-1, letters...]; ordered by length,
/// within a length the configuration varies fastest.
pub fn c13x_point(mut p: u64) -> Vec<u32> {
    let mut len = 1;
    while p >= c13x_block(len) {
        p -= c13x_block(len);
        len += 1;
    }
    let cfg = p % C13X_CONFIGS;
    let mut q = p / C13X_CONFIGS;
    let mut out = vec![(cfg % 4) as u32, ((cfg / 4) % 2) as u32, (cfg / 8) as u32, len - 1];
    for _ in 0..len {
        out.push((q % C13X_LETTERS) as u32);
        q /= C13X_LETTERS;
    }
    out
}

fn gen_c13x(ch: &mut Choices) -> Plan {
    let role = C16X_ROLES[ch.choose(4) as usize];
    let window = 1 + ch.choose(2) as u16;
    let kit = ch.choose(C13X_KITS as u32);
    let len = 1 + ch.choose(C13X_MAX_LEN);
    let letters: Vec<u32> = (0..len).map(|_| ch.choose(C13X_LETTERS as u32)).collect();
    let mut plan = base_plan("C13X", role, ch);
    plan.p_ext = 0;
    plan.cut = Cut::All;
    match role {
        Role::S5 => plan.peer.connect.props.push((33, PropVal::U16(window))),
        Role::S3 | Role::C3 => plan.cfg.max_send = window,
        Role::C5 => plan.peer.connack_props.push((33, PropVal::U16(window))),
    }
    // a stalled transport turns into write back-pressure as soon as one packet is buffered
    plan.cfg.wr_hw = 16;
    plan.cfg.wr_lw = 8;
    let q1 = AppOp::PubQ1 { len: 2, pid: None };
    plan.senders = match kit {
        0 => vec![vec![q1.clone(), q1.clone()], vec![q1.clone(), q1.clone()], vec![q1.clone(), q1.clone()]],
        1 => vec![vec![q1.clone(), q1.clone()], vec![AppOp::Ready, q1.clone()], vec![q1.clone(), AppOp::Ready]],
        2 => vec![vec![AppOp::PubQ2 { len: 2, pid: None }, AppOp::Release, q1.clone()], vec![q1.clone(), q1.clone()], vec![AppOp::Ready, q1.clone()]],
        3 => vec![vec![AppOp::PubQ1Nb { len: 2, pid: None }, q1.clone()], vec![q1.clone(), AppOp::PubQ0 { len: 2 }], vec![AppOp::Unpolled { what: 1 }, q1.clone()]],
        // caller-chosen identifiers that collide with each other and with the first generated one
        4 => {
            let one = AppOp::PubQ1 { len: 2, pid: Some(1) };
            let other = if role.is_server() { AppOp::PubQ2 { len: 2, pid: Some(1) } } else { AppOp::Subscribe { n: 1, pid: Some(1) } };
            vec![vec![one.clone(), one], vec![q1.clone(), other], vec![q1.clone(), q1.clone()]]
        }
        // requests that are not publishes (clients), a streamed publish (servers)
        _ => {
            if role.is_server() {
                vec![vec![AppOp::StreamQ1 { size: 8, chunks: vec![4, 4], pid: None }, q1.clone()], vec![q1.clone(), q1.clone()], vec![AppOp::PubQ0 { len: 2 }, q1.clone()]]
            } else {
                vec![vec![AppOp::Subscribe { n: 1, pid: None }, AppOp::Subscribe { n: 2, pid: None }], vec![q1.clone(), q1.clone()], vec![AppOp::Unsubscribe { n: 1, pid: None }, q1.clone()]]
            }
        }
    };
    plan.ext_script = letters.iter().map(|l| c13x_letter(*l)).collect();
    plan.peer.auto_ack = true;
    plan.tags.push(format!("enum:w{window}:kit{kit}:{}", letters.iter().map(|l| l.to_string()).collect::<Vec<_>>().join(".")));
    plan.ending = Ending::Settle;
    plan
}


// ------------------------------------------------------------------------------------------
// C06L: one long connection - the identifier counter goes once round its 16-bit range

pub const C06L_SENDS: usize = 65_536 + 1_200;

fn gen_c06l(ch: &mut Choices) -> Plan {
    // (first draw = role: batch::mode_of makes it the run index modulo 4, so that the two runs of the quick
    // tier are one MQTT 5 and one MQTT 3.1.1 endpoint)
    let role = C16X_ROLES[ch.choose(4) as usize];
    let mut plan = base_plan("C06L", role, ch);
    plan.cut = Cut::All;
    plan.p_ext = *ch.pick(&[0u32, 150]);
    // a window of 2..16: a few exchanges overlap all the time (also the two that straddle the wrap)
    let window = *ch.pick(&[3u16, 4, 8, 16]);
    match role {
        Role::S5 => plan.peer.connect.props.push((33, PropVal::U16(window))),
        Role::S3 | Role::C3 => plan.cfg.max_send = window,
        Role::C5 => plan.peer.connack_props.push((33, PropVal::U16(window))),
    }
    // five senders share the sends; most are QoS 1, now and then an exactly-once exchange or (clients) a
    // subscribe, so that every kind of exchange draws identifiers across the wrap
    let per = C06L_SENDS / 5 + 1;
    for s in 0..5 {
        let mut ops = Vec::with_capacity(per + 8);
        let mut k = 0usize;
        while ops.len() < per {
            k += 1;
            if k % 997 == 0 + s {
                ops.push(AppOp::PubQ2 { len: 1, pid: None });
                ops.push(AppOp::Release);
            } else if !role.is_server() && k % 1499 == 0 {
                ops.push(AppOp::Subscribe { n: 1, pid: None });
            } else {
                ops.push(AppOp::PubQ1 { len: 0, pid: None });
            }
        }
        plan.senders.push(ops);
    }
    plan.peer.auto_ack = true;
    plan.ending = Ending::Settle;
    plan.max_steps = 6_000_000;
    plan.horizon_ms = 2_500;
    plan.tags.push(format!("long:{}:w{window}", C06L_SENDS));
    plan
}


// ------------------------------------------------------------------------------------------
// C20L: two simulated hours of a live connection (thousands of timer periods), then silence

fn gen_c20l(ch: &mut Choices) -> Plan {
    let role = pick_role(ch);
    let ver = role.ver();
    let mut plan = base_plan("C20L", role, ch);
    plan.cut = Cut::All;
    plan.p_immediate = 1000;
    plan.cfg.disconnect_timeout_s = 1;
    let ka = *ch.pick(&[1u16, 2, 3, 6]);
    let total_ms: u64 = std::env::var("C20L_MS").ok().and_then(|s| s.parse().ok()).unwrap_or(7_200_000);
    if role.is_server() {
        plan.peer.connect.keep_alive = ka;
        plan.tags.push("mode:keepalive".into());
        if ch.chance(1, 2) {
            // both timers configured: every packet that arrives in two pieces lends the connection's timer
            // slot to the read-rate regime and has to give it back
            plan.cfg.frame_read_rate = Some((1 + ch.choose(2) as u16, *ch.pick(&[0u16, 4]), *ch.pick(&[4u32, 64])));
        }
        // a packet every keep-alive period (well inside the 1.5 x limit), or twice per period; mostly PINGREQ,
        // now and then a publish, some of them arriving in two pieces
        let period = u64::from(ka) * *ch.pick(&[1000u64, 500]);
        let mut t = 0u64;
        let mut i = 0u32;
        while t + period <= total_ms {
            t += period;
            i += 1;
            let pkt = if i % 41 == 0 { Pkt::Publish(mk_publish(ver, ch, i, 0, None, 3)) } else { Pkt::PingReq };
            let split = if i % 97 == 0 { Some((1usize, 300u64)) } else { None };
            timed_packet(&mut plan.peer.script, pkt, ver, t, split);
        }
        plan.horizon_ms = t + 18_000;
    } else {
        // a client with a keep-alive: two hours of PINGREQs answered by the broker, a publish from the
        // broker now and then
        plan.cfg.client_keepalive_s = ka;
        plan.peer.auto_ack = true;
        plan.tags.push("mode:client-keepalive".into());
        if ch.chance(1, 2) {
            // the send window (of one) stays exhausted, with or without a broker that answers: the ping task
            // must keep ticking next to parked senders for the whole two hours
            match role {
                Role::C5 => plan.peer.connack_props.push((33, PropVal::U16(1))),
                _ => plan.cfg.max_send = 1,
            }
            plan.senders.push(vec![AppOp::PubQ1 { len: 2, pid: None }, AppOp::PubQ1 { len: 2, pid: None }]);
            plan.peer.auto_ack = ch.chance(1, 2);
        }
        let mut t = 0u64;
        let mut i = 0u32;
        while t + 61_000 <= total_ms {
            t += 61_000;
            i += 1;
            timed_packet(&mut plan.peer.script, Pkt::Publish(mk_publish(ver, ch, i, 0, None, 3)), ver, t, None);
        }
        plan.horizon_ms = total_ms;
    }
    plan.ending = Ending::Settle;
    plan.max_steps = 2_000_000;
    plan.tags.push("long:2h".into());
    plan
}
