//! The plan of one run: configuration knobs, peer script, application script, fault budget.
//! Everything in it is drawn from the choice stream at the start of the run.
use crate::refcodec::{Connect, Pkt};
use crate::world::Role;

#[derive(Clone, Copy, Debug, PartialEq, Eq)]
pub enum Sched {
    /// always run the oldest runnable task (what ntex-rt does)
    Fifo,
    /// uniformly random runnable task
    Random,
    /// FIFO with a few priority inversions at random points
    Pct,
}

#[derive(Clone, Copy, Debug, PartialEq, Eq)]
pub enum Cut {
    /// every delivery hands over everything that is on the wire
    All,
    /// random cut sizes
    Random,
    /// one byte at a time (short streams only)
    Byte,
    /// cut exactly at, one before or one after a packet/field boundary
    Boundary,
}

#[derive(Clone, Debug)]
pub enum HsOutcome {
    Accept,
    Refuse(u8),
    Error,
}

#[derive(Clone, Debug)]
pub struct EpCfg {
    pub max_qos: u8,
    pub max_size: u32,
    pub max_receive: u16,
    pub max_receive_size: usize,
    pub max_topic_alias: u16,
    pub max_send: u16,
    pub min_chunk: u32,
    pub max_payload_buf: usize,
    pub connect_timeout_s: u16,
    pub handle_qos_after_disconnect: Option<u8>,
    // handshake service behaviour
    pub hs: HsOutcome,
    pub hs_gated: bool,
    pub hs_keepalive: Option<u16>,
    pub hs_max_send: Option<u16>,
    /// v5: handshake ack overrides (None = leave what `Handshake::ack` computed)
    pub hs_receive_max: Option<u16>,
    pub hs_max_qos: Option<u8>,
    pub hs_topic_alias_max: Option<u16>,
    pub hs_max_packet_size: Option<u32>,
    pub hs_retain_available: Option<bool>,
    pub hs_sub_ids_available: Option<bool>,
    // io
    pub wr_hw: usize,
    pub wr_lw: usize,
    pub rd_hw: usize,
    pub frame_read_rate: Option<(u16, u16, u32)>,
    pub disconnect_timeout_s: u16,
    // application structure
    /// server roles: the combined (version sniffing) server in front of the v3 and v5 services
    pub combined: bool,
    pub use_router: bool,
    /// control(Stop) goes through a gate (delayed completion)
    pub ctl_gated: bool,
    /// v3 server: replace the default in-flight middleware limits
    pub client_keepalive_s: u16,
    /// client: what the client puts into CONNECT
    pub client_receive_max: u16,
    pub client_max_packet_size: Option<u32>,
    pub client_topic_alias_max: u16,
    /// v3 client: max_receive/in-flight config
    pub client_handshake_timeout_s: u16,
    /// server roles: the sender tasks are started inside the handshake service with `Handshake::sink()`,
    /// before the CONNECT is acknowledged (the send limit is installed only afterwards)
    pub early_senders: bool,
    /// the publish service's `ready()` returns an error once this many publish handlers have been started
    pub svc_ready_fail_after: Option<u32>,
    /// the application's services take (simulated) time in `shutdown()`
    pub svc_slow_shutdown: bool,
    /// MQTT 5: successful publish acknowledgements carry a user property with a value of this many bytes and a
    /// reason string of this many bytes (optional properties the encoder drops when they do not fit the
    /// peer's Maximum Packet Size)
    pub ack_props: Option<(u16, u16)>,
    /// server roles: the SUBSCRIBE handler publishes through the sink (QoS 1) and awaits the acknowledgement
    /// before it answers - an application handler that depends on the connection's own outbound side
    pub handler_sends: bool,
    /// server roles: the control service, while it handles the Stop notification, tries one more awaiting QoS 1
    /// send through the sink (an application that reports the end of a session to the peer)
    pub ctl_sends: bool,
    /// the publish-ack callback (non-blocking sends) asks its own sink `is_open()`, `is_ready()` and `credit()`
    /// while it runs - what a pipeline that sends the next message once an acknowledgement frees a slot does
    pub cb_queries: bool,
    /// ... and publishes a QoS 0 message (topic `cb/q0`) through that sink from inside the callback
    pub cb_sends: bool,
}

impl Default for EpCfg {
    fn default() -> Self {
        EpCfg {
            max_qos: 2,
            max_size: 0,
            max_receive: 16,
            max_receive_size: 65535,
            max_topic_alias: 32,
            max_send: 16,
            min_chunk: 32 * 1024,
            max_payload_buf: 32 * 1024,
            connect_timeout_s: 0,
            handle_qos_after_disconnect: None,
            hs: HsOutcome::Accept,
            hs_gated: false,
            hs_keepalive: None,
            hs_max_send: None,
            hs_receive_max: None,
            hs_max_qos: None,
            hs_topic_alias_max: None,
            hs_max_packet_size: None,
            hs_retain_available: None,
            hs_sub_ids_available: None,
            wr_hw: 16 * 1024 - 24,
            wr_lw: 512 + 24,
            rd_hw: 16 * 1024 - 24,
            frame_read_rate: None,
            disconnect_timeout_s: 1,
            combined: false,
            use_router: false,
            ctl_gated: false,
            client_keepalive_s: 0,
            client_receive_max: 0,
            client_max_packet_size: None,
            client_topic_alias_max: 0,
            client_handshake_timeout_s: 0,
            early_senders: false,
            svc_ready_fail_after: None,
            svc_slow_shutdown: false,
            ack_props: None,
            handler_sends: false,
            ctl_sends: false,
            cb_queries: false,
            cb_sends: false,
        }
    }
}

/// Precondition of a scripted peer step.
#[derive(Clone, Debug, PartialEq, Eq)]
pub enum Pre {
    None,
    /// the endpoint's CONNACK (server roles) / CONNECT (client roles) has been seen
    Connected,
    /// the endpoint has written PUBREC for this id (count-th occurrence, 1-based)
    SawPubRec(u16, u32),
    /// the endpoint has written at least n packets in total
    SawPackets(usize),
    /// simulated time has reached t ms
    AtMs(u64),
    /// the endpoint has written the final ack (PUBACK/PUBCOMP/SUBACK/UNSUBACK) for id, n-th occurrence
    SawFinalAck(u16, u32),
    /// gate of the script step with this index has been entered (handler running)
    HandlerEntered(usize),
    /// fewer than n QoS1/2 publishes sent by the peer are without their final ack from the endpoint
    WindowBelow(u16),
}

#[derive(Clone, Debug)]
pub struct PeerStep {
    pub pre: Pre,
    pub bytes: Vec<u8>,
    /// the packet these bytes encode (None for raw/corrupt input)
    pub pkt: Option<Pkt>,
    /// description of a corruption applied to `bytes`, if any
    pub corrupt: Option<String>,
    /// half-close / reset after sending
    pub then_close: Option<bool>,
}

#[derive(Clone, Copy, Debug, PartialEq, Eq)]
pub enum AckDeviation {
    None,
    /// acknowledge a younger outstanding exchange first
    Reorder,
    /// wrong ack type for the oldest outstanding exchange
    WrongType,
    /// the same ack twice
    Duplicate,
    /// an ack for an id that is not outstanding
    UnknownId,
    /// an ack while nothing is outstanding
    Unsolicited,
}

#[derive(Clone, Debug)]
pub struct PeerPlan {
    /// server roles: the CONNECT to send first. client roles: ignored.
    pub connect: Connect,
    /// client roles: the CONNACK to answer with (code, props)
    pub connack_code: u8,
    pub connack_props: crate::refcodec::Props,
    pub connack_session_present: bool,
    pub script: Vec<PeerStep>,
    /// script of the peer of the second connection (empty: same as `script`)
    pub script2: Vec<PeerStep>,
    /// the peer acknowledges what the endpoint sends (PUBLISH/PUBREL/SUBSCRIBE/UNSUBSCRIBE/PINGREQ)
    pub auto_ack: bool,
    pub deviation: AckDeviation,
    /// which owed ack (0-based count) the deviation is applied at
    pub deviation_at: u32,
    /// reason codes to use in acks (v5): pid -> code, default 0
    pub ack_codes: Vec<u8>,
    /// answer QoS2 publishes from the endpoint with PUBREC, then PUBCOMP after PUBREL
    pub pubcomp_any_order: bool,
    /// v5: PUBREC carries the reason code of `ack_codes` too (>= 0x80: the peer refuses the publish); a
    /// PUBREL that arrives for a refused publish is answered with PUBCOMP 0x92 (identifier not found)
    pub refuse_pubrec: bool,
    /// MQTT 5: the peer's acknowledgements carry optional properties - 0 none; 1 user property then reason
    /// string; 2 reason string then user property; 3 user property, reason string, user property
    pub ack_props_mode: u8,
    /// use the long form for v5 acks
    pub long_acks: bool,
    /// server roles: do not send CONNECT first (the script starts with some other packet)
    pub skip_connect: bool,
}

#[derive(Clone, Debug, PartialEq, Eq)]
pub enum AppOp {
    PubQ0 { len: u32 },
    PubQ1 { len: u32, pid: Option<u16> },
    /// QoS1 publish through the non-blocking API (`send_at_least_once_no_block`, completion through the
    /// sink's publish-ack callback); the sender waits for readiness first and for the callback afterwards
    PubQ1Nb { len: u32, pid: Option<u16> },
    PubQ2 { len: u32, pid: Option<u16> },
    /// release the receipt obtained by the previous PubQ2 of this sender and await PUBCOMP
    Release,
    /// drop the receipt obtained by the previous PubQ2 of this sender
    DropReceipt,
    /// call `release()` on the receipt and drop the returned future without polling it (the losing branch of a
    /// select, a task cancelled between creating and awaiting it): the receipt is gone, its PUBREL is still due
    DropRelease,
    /// QoS 0 publish that carries a packet identifier (a received QoS 1/2 packet forwarded as it is): refused
    /// by the encoder, nothing may reach the wire
    PubQ0Pid { len: u32, pid: u16 },
    Subscribe { n: u8, pid: Option<u16> },
    Unsubscribe { n: u8, pid: Option<u16> },
    Ready,
    /// create an awaiting future and drop it without ever polling it (the waiter it registered at
    /// creation stays in the queue): 0 ready(), 1 QoS1 publish, 2 QoS2 publish
    Unpolled { what: u8 },
    /// streamed QoS1 publish: declared size, chunk sizes actually sent (may under/over-deliver), drop stream at end
    StreamQ1 { size: u32, chunks: Vec<u32>, pid: Option<u16> },
    StreamQ0 { size: u32, chunks: Vec<u32> },
    /// send that must fail in or before the encoder
    BadTopicTooLong { qos: u8 },
    /// subscribe / unsubscribe whose filter is longer than 65535 bytes (fails in the encoder)
    BadSubscribe { unsub: bool },
    Close,
    CloseReason(u8),
    CloseNoReason,
    ForceClose,
    /// two close calls back to back: close_with_reason(code) then close() (v3: close twice)
    CloseTwice(u8),
}

impl PeerPlan {
    pub fn script_of(&self, conn: usize) -> &Vec<PeerStep> {
        if conn == 1 && !self.script2.is_empty() { &self.script2 } else { &self.script }
    }
}

impl AppOp {
    pub fn brief(&self) -> String {
        // (the oracles tell the kinds of operation apart by the first word: a non-blocking QoS1 publish is
        // a QoS1 publish to them)
        if let AppOp::PubQ1Nb { len, pid } = self {
            return format!("PubQ1 {{ len: {len}, pid: {pid:?}, no_block }}");
        }
        if let AppOp::DropRelease = self {
            return "DropReceipt".into();
        }
        format!("{self:?}")
    }
}

#[derive(Clone, Debug, Default)]
pub struct FaultPlan {
    /// per-mille chance per step of starting a write stall (when none is active)
    pub p_wr_stall: u32,
    pub short_write: bool,
    pub p_spurious: u32,
    pub p_clock_stall: u32,
    /// inject FIN / RST / write error at this step number (exploration families)
    pub fin_at_step: Option<u64>,
    pub rst_at_step: Option<u64>,
    pub wr_err_at_step: Option<u64>,
    /// the peer's byte stream ends after exactly this many bytes have been delivered (everything
    /// else it sent is lost), with FIN (false) or RST (true): connection loss at an arbitrary byte
    pub close_after_bytes: Option<(u64, bool)>,
    /// the endpoint's writes fail once exactly this many bytes have been written in total
    pub wr_err_after_bytes: Option<u64>,
}

/// One letter of an enumerated sequence of external events (family C13X): the simulator performs the
/// letters in order. `delay` says when: 255 = once the system has gone quiet (no runnable task, nothing on
/// the wire); k < 255 = after k task polls have happened since the previous letter (or at quiescence, if that
/// comes first) - 0 is "right behind the previous letter", 1..3 land between an event and the wake-ups it
/// causes (a waiter dropped, or a new operation started, after the dispatcher has processed an
/// acknowledgement and before the woken waiter has run). A letter that is not enabled when its turn comes
/// (sender busy / idle, nothing owed, already stalled) is skipped.
#[derive(Clone, Copy, Debug, PartialEq, Eq)]
pub enum ExtAct {
    /// start the next operation of sender i
    Go(usize),
    /// cancel (drop) the pending operation of sender i
    Cancel(usize),
    /// the peer writes the oldest acknowledgement it owes
    Ack,
    /// the transport stops / resumes accepting the endpoint's writes (write back-pressure on / off)
    StallOn,
    StallOff,
}

#[derive(Clone, Copy, Debug, PartialEq, Eq)]
pub struct ExtStep {
    pub act: ExtAct,
    pub delay: u8,
}

/// How a run ends after the scripted part.
#[derive(Clone, Copy, Debug, PartialEq, Eq)]
pub enum Ending {
    /// stop at quiescence of the scripted part; no liveness judgement
    Stop,
    /// cooperative phase: open all gates, acknowledge and drain everything, then judge liveness
    Settle,
    /// Settle, then the peer closes and teardown is judged
    SettleThenFin,
}

#[derive(Clone, Debug)]
pub struct Plan {
    pub family: &'static str,
    pub role: Role,
    pub sched: Sched,
    /// per-mille chance of an external action while tasks are runnable
    pub p_ext: u32,
    pub cut: Cut,
    pub cfg: EpCfg,
    pub peer: PeerPlan,
    pub senders: Vec<Vec<AppOp>>,
    /// per-mille: a gate completes without parking
    pub p_immediate: u32,
    /// per-mille: a parked publish/protocol handler is held until the closing phase (it does not
    /// complete while the scripted part runs)
    pub p_hold: u32,
    /// per-mille: a parked control(Stop) handler is held until the closing phase (simulated time passes
    /// while the Stop notification is being handled)
    pub p_hold_ctl: u32,
    /// ok / neg / err weights for handler outcomes
    pub w_outcome: [u32; 3],
    /// eager / lazy / abandon weights for payload reading
    pub w_payload: [u32; 3],
    /// protocol-handler outcomes: ok / ask-to-disconnect / error
    pub w_proto: [u32; 3],
    /// control(Stop) outcomes: none / own DISCONNECT / error
    pub w_ctl: [u32; 3],
    /// per-mille chance per step of cancelling a pending sender op
    pub p_cancel: u32,
    pub faults: FaultPlan,
    pub ending: Ending,
    pub max_steps: u64,
    pub horizon_ms: u64,
    /// two connections created from the same server factory (C17)
    pub conns: usize,
    /// what the generator injected on purpose, for the oracles ("inject:<cause>")
    pub tags: Vec<String>,
    /// enumerated completion order (C04X): handler gates (publish / protocol, numbered in the order in
    /// which they are entered) are opened by the simulator in exactly this order; empty = seeded order
    pub gate_order: Vec<u32>,
    /// enumerated immediate / deferred mix (C04X): handler gate k completes without parking iff mask[k]
    pub immediate_mask: Vec<bool>,
    /// enumerated sequence of external events (C13X); empty = external events are drawn
    pub ext_script: Vec<ExtStep>,
    /// the peer writes the script steps from this index on in one go (no delivery in between): they reach
    /// the endpoint in a single read
    pub glue_from: Option<usize>,
}
