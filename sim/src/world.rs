//! Shared state of one simulated run: choice stream, history, gates, sender slots.
//! Single-threaded (`Rc`/`RefCell`), owned by the run thread.
use std::cell::{Cell, RefCell};
use std::future::poll_fn;
use std::rc::Rc;
use std::task::{Poll, Waker};

use crate::choice::Choices;
use crate::net::Wire;
use crate::refcodec::{Pkt, Ver};
use crate::rng::Fnv;

#[derive(Clone, Copy, Debug, PartialEq, Eq, PartialOrd, Ord, Hash)]
pub enum Role {
    S3,
    S5,
    C3,
    C5,
}

impl Role {
    pub fn ver(self) -> Ver {
        match self {
            Role::S3 | Role::C3 => Ver::V3,
            Role::S5 | Role::C5 => Ver::V5,
        }
    }
    pub fn is_server(self) -> bool {
        matches!(self, Role::S3 | Role::S5)
    }
    pub fn name(self) -> &'static str {
        match self {
            Role::S3 => "S3",
            Role::S5 => "S5",
            Role::C3 => "C3",
            Role::C5 => "C5",
        }
    }
}

#[derive(Clone, Copy, Debug, PartialEq, Eq)]
pub enum GateKind {
    Handshake,
    Publish,
    Proto,
    Control,
    /// `Service::shutdown()` of an application service taking (simulated) time
    Shutdown,
}

#[derive(Clone, Debug, PartialEq, Eq)]
pub enum Outcome {
    Ok,
    /// v5: error that the application maps to a negative acknowledgement with this code
    Neg(u8),
    /// error that cannot be mapped: the connection must end
    Err,
    /// proto handler: ask for disconnect with reason code (v5) / disconnect (v3)
    Disconnect(u8),
    /// control(Stop) handler: answer with the application's own DISCONNECT (v5) carrying this code
    OwnDisconnect(u8),
    /// handshake refused with this CONNACK code
    Refuse(u8),
}

impl Outcome {
    pub fn brief(&self) -> String {
        match self {
            Outcome::Ok => "ok".into(),
            Outcome::Neg(c) => format!("neg(0x{c:02x})"),
            Outcome::Err => "err".into(),
            Outcome::Disconnect(c) => format!("disconnect(0x{c:02x})"),
            Outcome::OwnDisconnect(c) => format!("own-disconnect(0x{c:02x})"),
            Outcome::Refuse(c) => format!("refuse(0x{c:02x})"),
        }
    }
}

/// What a publish handler saw.
#[derive(Clone, Debug, PartialEq, Eq)]
pub struct PubSeen {
    pub topic: String,
    pub qos: u8,
    pub dup: bool,
    pub retain: bool,
    pub pid: Option<u16>,
    pub declared_len: usize,
    /// digest of the v5 properties as seen (order-insensitive), 0 for v3
    pub props_sig: u64,
    pub alias: Option<u16>,
    /// which handler ran: "default" or the router resource name
    pub route: String,
}

#[derive(Clone, Debug)]
pub enum GateDesc {
    Handshake { brief: String },
    Publish(PubSeen),
    Proto { brief: String, pid: Option<u16> },
    Control { brief: String },
}

#[derive(Clone, Copy, Debug, PartialEq, Eq)]
pub enum PayloadMode {
    /// read everything before parking on the gate
    Eager,
    /// read one piece each time the simulator allows it, then park on the gate
    Lazy,
    /// never read the payload
    Abandon,
    /// wait until the simulator allows it, then read everything with one call
    LateAll,
}

#[derive(Debug)]
pub struct Gate {
    pub id: usize,
    pub conn: usize,
    pub kind: GateKind,
    pub desc: GateDesc,
    pub opened: Option<Outcome>,
    pub waker: Option<Waker>,
    /// handler future finished (returned) / was dropped before finishing
    pub exited: bool,
    pub dropped: bool,
    pub parked: bool,
    /// lazy payload reading: pieces the simulator has allowed so far / reader is waiting for permission
    pub read_credit: u32,
    pub read_waiting: bool,
    pub read_done: bool,
    pub payload_mode: PayloadMode,
    /// not opened by the simulator before the closing phase
    pub held: bool,
}

#[derive(Clone, Debug, PartialEq, Eq)]
pub enum StopClass {
    /// Reason::Error (application error)
    AppError,
    /// Reason::Protocol: rendered protocol error
    Protocol(String),
    /// Reason::PeerGone(Some(io error)) / None
    PeerGone(bool),
}

/// What an awaiting send returned.
#[derive(Clone, Debug, PartialEq, Eq)]
pub struct AckInfo {
    /// "puback" | "pubrec" | "pubcomp" | "suback" | "unsuback" | "sent" | "ready" | ...
    pub what: &'static str,
    pub pid: u16,
    pub code: u8,
    /// digest of reason string + user properties of the ack as returned to the application
    pub sig: u64,
    pub codes: Vec<u8>,
}

impl AckInfo {
    pub fn none(what: &'static str) -> AckInfo {
        AckInfo { what, pid: 0, code: 0, sig: 0, codes: Vec::new() }
    }
}

#[derive(Clone, Debug)]
pub enum OpResult {
    Ok(AckInfo),
    Err(String),
    Cancelled,
}

#[derive(Clone, Debug)]
pub enum Ev {
    // -- peer side
    PeerSend { conn: usize, pkt: Option<Pkt>, len: usize, corrupt: Option<String>, start: usize },
    PeerRaw { conn: usize, len: usize, what: String },
    Deliver { conn: usize, n: usize },
    PeerClose { conn: usize, rst: bool },
    // -- endpoint output
    EpWrite { conn: usize, n: usize },
    EpPacket { conn: usize, pkt: Pkt, off: usize, len: usize },
    EpGarbage { conn: usize, off: usize, what: String },
    EpClosed { conn: usize },
    // -- application side
    GateEnter { gate: usize, conn: usize, kind: GateKind, desc: GateDesc, immediate: bool },
    /// the handler is about to await payload data
    PayloadWait { gate: usize },
    PayloadPiece { gate: usize, len: usize, digest: u64 },
    PayloadEnd { gate: usize, total: usize, digest: u64, err: Option<String> },
    GateOpen { gate: usize, outcome: Outcome },
    GateExit { gate: usize, outcome: Outcome },
    GateDropped { gate: usize },
    Control { conn: usize, wr: Option<bool>, stop: Option<StopClass> },
    OpStart { sender: usize, op: usize, brief: String },
    OpDone { sender: usize, op: usize, res: OpResult },
    OpCancel { sender: usize, op: usize },
    /// the sink's publish-ack callback ran (non-blocking sends): packet id, reason code, "disconnected"
    AckCb { pid: u16, code: u8, disc: bool },
    ConnDone { conn: usize, res: String },
    /// the per-connection services (control service) were created: the dispatcher is about to run
    Session { conn: usize },
    // -- simulator
    Fault { conn: usize, kind: &'static str, arg: u64 },
    Clock { to_ms: u64 },
    Phase { name: &'static str },
    Note { what: String },
}

#[derive(Clone, Debug)]
pub struct Event {
    pub seq: u64,
    pub t_ms: u64,
    pub ev: Ev,
}

#[derive(Debug, Default, Clone)]
pub struct Stats {
    pub steps: u64,
    pub task_polls: u64,
    pub sim_ms: u64,
    pub faults: std::collections::BTreeMap<&'static str, u64>,
    pub probes: std::collections::BTreeMap<&'static str, u64>,
}

#[derive(Debug)]
pub struct SenderSlot {
    pub next_op: usize,
    pub n_ops: usize,
    /// the task is parked waiting for permission to start its next op
    pub waiting: bool,
    pub go: bool,
    pub waker: Option<Waker>,
    /// an op is in progress (pending future)
    pub busy: bool,
    pub cancel: bool,
    pub cancel_waker: Option<Waker>,
    pub finished: bool,
}

pub struct World {
    pub ch: RefCell<Choices>,
    pub hist: RefCell<Vec<Event>>,
    pub seq: Cell<u64>,
    pub gates: RefCell<Vec<Gate>>,
    pub senders: RefCell<Vec<SenderSlot>>,
    pub wires: RefCell<Vec<Wire>>,
    pub stats: RefCell<Stats>,
    pub finished: Cell<bool>,
    pub finish_waker: RefCell<Option<Waker>>,
    /// gates open immediately with Ok from now on (settle phase)
    pub auto_open: Cell<bool>,
    /// per-mille probability that a gate completes without parking
    pub p_immediate: Cell<u32>,
    pub p_hold: Cell<u32>,
    pub p_hold_ctl: Cell<u32>,
    /// weights for outcome ok / neg / err at immediate completion
    pub w_outcome: Cell<[u32; 3]>,
    /// weights for payload mode eager / lazy / abandon
    pub w_payload: Cell<[u32; 3]>,
    pub conn_done: RefCell<Vec<Option<String>>>,
    pub setup_error: RefCell<Option<String>>,
    /// enumerated immediate / deferred mix (Plan::immediate_mask); empty = drawn per gate
    pub immediate_mask: RefCell<Vec<bool>>,
    /// the publish service's readiness check fails once this many publish handlers have been started
    pub ready_fail_after: Cell<Option<u32>>,
    pub ready_fail_noted: Cell<bool>,
    /// `shutdown()` of the application's services parks on a gate
    pub slow_shutdown: Cell<bool>,
    /// what the sink's publish-ack callback was called with, in call order: (pid, code, sig, disconnected)
    pub ack_props: Cell<Option<(u16, u16)>>,
    pub cb_log: RefCell<Vec<(u16, u8, u64, bool)>>,
    pub cb_refills: Cell<u32>,
    pub cb_wakers: RefCell<Vec<Waker>>,
}

impl World {
    pub fn new(ch: Choices) -> Rc<World> {
        Rc::new(World {
            ch: RefCell::new(ch),
            hist: RefCell::new(Vec::with_capacity(256)),
            seq: Cell::new(0),
            gates: RefCell::new(Vec::new()),
            senders: RefCell::new(Vec::new()),
            wires: RefCell::new(Vec::new()),
            stats: RefCell::new(Stats::default()),
            finished: Cell::new(false),
            finish_waker: RefCell::new(None),
            auto_open: Cell::new(false),
            p_immediate: Cell::new(0),
            p_hold: Cell::new(0),
            p_hold_ctl: Cell::new(0),
            w_outcome: Cell::new([1, 0, 0]),
            w_payload: Cell::new([1, 0, 0]),
            conn_done: RefCell::new(Vec::new()),
            setup_error: RefCell::new(None),
            immediate_mask: RefCell::new(Vec::new()),
            ready_fail_after: Cell::new(None),
            ready_fail_noted: Cell::new(false),
            slow_shutdown: Cell::new(false),
            ack_props: Cell::new(None),
            cb_log: RefCell::new(Vec::new()),
            cb_refills: Cell::new(0),
            cb_wakers: RefCell::new(Vec::new()),
        })
    }

    pub fn now_ms() -> u64 {
        ntex_util::time::simclock::now_ns() / 1_000_000
    }

    pub fn ev(&self, ev: Ev) {
        if log::log_enabled!(log::Level::Trace) {
            log::trace!("EV[{}] {:?}", self.seq.get(), ev);
        }
        self.hist.borrow_mut().push(Event { seq: self.seq.get(), t_ms: Self::now_ms(), ev });
    }

    pub fn probe(&self, name: &'static str) {
        *self.stats.borrow_mut().probes.entry(name).or_insert(0) += 1;
    }

    pub fn fault(&self, conn: usize, kind: &'static str, arg: u64) {
        *self.stats.borrow_mut().faults.entry(kind).or_insert(0) += 1;
        self.ev(Ev::Fault { conn, kind, arg });
    }

    pub fn add_wire(&self) -> (usize, Wire) {
        let w = Wire::new();
        let mut ws = self.wires.borrow_mut();
        ws.push(w.clone());
        self.conn_done.borrow_mut().push(None);
        (ws.len() - 1, w)
    }

    pub fn wire(&self, conn: usize) -> Wire {
        self.wires.borrow()[conn].clone()
    }

    // ------------------------------------------------------------------ gates

    /// Register a handler invocation. Returns the gate id and, if the run's profile makes this
    /// invocation complete without parking, its outcome.
    pub fn gate_enter(&self, conn: usize, kind: GateKind, desc: GateDesc) -> (usize, Option<Outcome>) {
        let id = self.gates.borrow().len();
        let (immediate, mode) = {
            let mut ch = self.ch.borrow_mut();
            let mode = if kind == GateKind::Publish {
                match ch.weighted(&self.w_payload.get()) {
                    0 => {
                        if ch.chance(1, 3) {
                            PayloadMode::LateAll
                        } else {
                            PayloadMode::Eager
                        }
                    }
                    1 => PayloadMode::Lazy,
                    _ => PayloadMode::Abandon,
                }
            } else {
                PayloadMode::Eager
            };
            let masked = {
                let m = self.immediate_mask.borrow();
                if !m.is_empty() && matches!(kind, GateKind::Publish | GateKind::Proto) {
                    let ordinal = self.gates.borrow().iter().filter(|g| matches!(g.kind, GateKind::Publish | GateKind::Proto)).count();
                    Some(m.get(ordinal).copied().unwrap_or(false))
                } else {
                    None
                }
            };
            let imm = if self.auto_open.get() {
                Some(Outcome::Ok)
            } else if let Some(m) = masked {
                if m { Some(Outcome::Ok) } else { None }
            } else if matches!(kind, GateKind::Publish | GateKind::Proto) && ch.chance(self.p_immediate.get(), 1000) {
                let mut w = self.w_outcome.get();
                if kind == GateKind::Proto {
                    // negative acknowledgements exist for publishes only
                    w = [w[0] + w[1], 0, w[2]];
                }
                Some(match ch.weighted(&w) {
                    0 => Outcome::Ok,
                    1 => Outcome::Neg(*ch.pick(&NEG_CODES)),
                    _ => Outcome::Err,
                })
            } else {
                None
            };
            (imm, mode)
        };
        let held = immediate.is_none()
            && matches!(kind, GateKind::Publish | GateKind::Proto)
            && self.p_hold.get() > 0
            && self.ch.borrow_mut().chance(self.p_hold.get(), 1000)
            || immediate.is_none() && kind == GateKind::Control && self.p_hold_ctl.get() > 0 && self.ch.borrow_mut().chance(self.p_hold_ctl.get(), 1000);
        self.gates.borrow_mut().push(Gate {
            id,
            conn,
            kind,
            desc: desc.clone(),
            opened: immediate.clone(),
            waker: None,
            exited: false,
            dropped: false,
            parked: false,
            read_credit: 0,
            read_waiting: false,
            read_done: false,
            payload_mode: mode,
            held,
        });
        self.ev(Ev::GateEnter { gate: id, conn, kind, desc, immediate: immediate.is_some() });
        (id, immediate)
    }

    /// Park until the simulator opens the gate.
    pub async fn gate_wait(&self, id: usize) -> Outcome {
        poll_fn(|cx| {
            let mut gs = self.gates.borrow_mut();
            let g = &mut gs[id];
            // (a handler that is still alive after its connection's task has completed is not helped along any
            // more: the library has to cancel it; if it does not, it stays parked and the run shows it)
            let conn_over = matches!(g.kind, GateKind::Publish | GateKind::Proto) && self.conn_done.borrow().get(g.conn).is_some_and(Option::is_some);
            if let Some(o) = g.opened.clone() {
                g.parked = false;
                Poll::Ready(o)
            } else if self.auto_open.get() && !conn_over {
                g.opened = Some(Outcome::Ok);
                g.parked = false;
                Poll::Ready(Outcome::Ok)
            } else {
                g.parked = true;
                g.waker = Some(cx.waker().clone());
                Poll::Pending
            }
        })
        .await
    }

    /// Lazy payload reader: wait for permission to read one more piece.
    pub async fn gate_wait_read(&self, id: usize) {
        poll_fn(|cx| {
            let mut gs = self.gates.borrow_mut();
            let g = &mut gs[id];
            if g.read_credit > 0 {
                g.read_credit -= 1;
                g.read_waiting = false;
                Poll::Ready(())
            } else if self.auto_open.get() {
                g.read_waiting = false;
                Poll::Ready(())
            } else {
                g.read_waiting = true;
                g.waker = Some(cx.waker().clone());
                Poll::Pending
            }
        })
        .await;
    }

    pub fn gate_open(&self, id: usize, outcome: Outcome) {
        let waker = {
            let mut gs = self.gates.borrow_mut();
            let g = &mut gs[id];
            if g.opened.is_some() {
                return;
            }
            g.opened = Some(outcome.clone());
            g.waker.take()
        };
        self.ev(Ev::GateOpen { gate: id, outcome });
        if let Some(w) = waker {
            w.wake();
        }
    }

    pub fn gate_allow_read(&self, id: usize) {
        let waker = {
            let mut gs = self.gates.borrow_mut();
            let g = &mut gs[id];
            g.read_credit += 1;
            g.waker.take()
        };
        if let Some(w) = waker {
            w.wake();
        }
    }

    /// Wake every parked gate (used when switching to auto-open).
    pub fn gates_wake_all(&self) {
        let wakers: Vec<Waker> = self.gates.borrow_mut().iter_mut().filter_map(|g| g.waker.take()).collect();
        for w in wakers {
            w.wake();
        }
    }

    pub fn gate_exit(&self, id: usize, outcome: Outcome) {
        self.gates.borrow_mut()[id].exited = true;
        self.ev(Ev::GateExit { gate: id, outcome });
    }

    // ------------------------------------------------------------------ service readiness / shutdown

    /// Has the application's publish service started to fail its readiness check (connection 0 only)?
    pub fn svc_ready_failed(&self, conn: usize) -> bool {
        let Some(k) = self.ready_fail_after.get() else { return false };
        if conn != 0 {
            return false;
        }
        let started = self.gates.borrow().iter().filter(|g| g.conn == conn && g.kind == GateKind::Publish).count() as u32;
        if started < k {
            return false;
        }
        if !self.ready_fail_noted.get() {
            self.ready_fail_noted.set(true);
            self.fault(conn, "svc_ready_err", u64::from(k));
        }
        true
    }

    /// `Service::shutdown()` of an application service: returns at once, or parks on a gate.
    pub async fn svc_shutdown(&self, conn: usize) {
        if !self.slow_shutdown.get() {
            return;
        }
        let (gid, imm) = self.gate_enter(conn, GateKind::Shutdown, GateDesc::Control { brief: "service shutdown".into() });
        if imm.is_none() {
            let _ = self.gate_wait(gid).await;
        }
        self.gate_exit(gid, Outcome::Ok);
    }

    // ------------------------------------------------------------------ senders

    pub fn add_sender(&self, n_ops: usize) -> usize {
        let mut s = self.senders.borrow_mut();
        s.push(SenderSlot {
            next_op: 0,
            n_ops,
            waiting: false,
            go: false,
            waker: None,
            busy: false,
            cancel: false,
            cancel_waker: None,
            finished: false,
        });
        s.len() - 1
    }

    /// Sender task: wait until the simulator starts the next op. None when the script is over.
    pub async fn sender_next(&self, sidx: usize) -> Option<usize> {
        {
            let mut ss = self.senders.borrow_mut();
            let s = &mut ss[sidx];
            if s.next_op >= s.n_ops {
                s.finished = true;
                s.waiting = false;
                return None;
            }
        }
        self.sender_permit(sidx).await;
        let mut ss = self.senders.borrow_mut();
        let s = &mut ss[sidx];
        s.busy = true;
        s.cancel = false;
        let op = s.next_op;
        s.next_op += 1;
        Some(op)
    }

    /// Wait for one permission from the simulator (start of an op, or a sub-step of a streamed op).
    pub async fn sender_permit(&self, sidx: usize) {
        poll_fn(|cx| {
            let mut ss = self.senders.borrow_mut();
            let s = &mut ss[sidx];
            if s.go || self.auto_open.get() {
                s.go = false;
                s.waiting = false;
                Poll::Ready(())
            } else {
                s.waiting = true;
                s.waker = Some(cx.waker().clone());
                Poll::Pending
            }
        })
        .await;
    }

    pub fn sender_go(&self, sidx: usize) {
        let w = {
            let mut ss = self.senders.borrow_mut();
            let s = &mut ss[sidx];
            s.go = true;
            s.waker.take()
        };
        if let Some(w) = w {
            w.wake();
        }
    }

    pub fn sender_cancel(&self, sidx: usize) {
        let w = {
            let mut ss = self.senders.borrow_mut();
            let s = &mut ss[sidx];
            s.cancel = true;
            s.cancel_waker.take()
        };
        if let Some(w) = w {
            w.wake();
        }
    }

    /// Resolves when the simulator cancels the op in progress of this sender.
    pub async fn sender_cancelled(&self, sidx: usize) {
        poll_fn(|cx| {
            let mut ss = self.senders.borrow_mut();
            let s = &mut ss[sidx];
            if s.cancel {
                s.cancel = false;
                Poll::Ready(())
            } else {
                s.cancel_waker = Some(cx.waker().clone());
                Poll::Pending
            }
        })
        .await;
    }

    /// Skip the next op of this sender without running it (used when the op it depends on did not
    /// produce what it needs, e.g. Release after a cancelled exactly-once send).
    pub fn sender_skip_next(&self, sidx: usize) {
        let mut ss = self.senders.borrow_mut();
        let s = &mut ss[sidx];
        if s.next_op < s.n_ops {
            s.next_op += 1;
        }
    }

    /// Called from inside the sink's publish-ack callback (the library holds its queues borrowed while
    /// it runs: nothing of the sink may be touched here).
    pub fn ack_cb(&self, pid: u16, code: u8, sig: u64, disc: bool) {
        self.cb_log.borrow_mut().push((pid, code, sig, disc));
        self.ev(Ev::AckCb { pid, code, disc });
        let ws: Vec<Waker> = self.cb_wakers.borrow_mut().drain(..).collect();
        for w in ws {
            w.wake();
        }
    }

    /// what the sink's observers said from inside the publish-ack callback (recorded so that the calls are not
    /// optimised away and show in the event log)
    pub fn cb_query(&self, open: bool, ready: bool, credit: usize) {
        self.probe(if open { "cb_query_open" } else { "cb_query_closed" });
        let _ = (ready, credit);
    }

    /// budget of sends issued from inside the callback
    pub fn cb_refill(&self) -> bool {
        let n = self.cb_refills.get();
        self.cb_refills.set(n + 1);
        n < 2
    }

    pub fn cb_mark(&self) -> usize {
        self.cb_log.borrow().len()
    }

    /// Resolves with the first callback invocation for `pid` recorded at or after position `from`.
    pub async fn cb_wait(&self, pid: u16, from: usize) -> (u8, u64, bool) {
        poll_fn(|cx| {
            if let Some(e) = self.cb_log.borrow()[from..].iter().find(|e| e.0 == pid) {
                return Poll::Ready((e.1, e.2, e.3));
            }
            self.cb_wakers.borrow_mut().push(cx.waker().clone());
            Poll::Pending
        })
        .await
    }

    pub fn sender_op_done(&self, sidx: usize) {
        self.senders.borrow_mut()[sidx].busy = false;
    }

    // ------------------------------------------------------------------ end of run

    pub fn finish(&self) {
        self.finished.set(true);
        if let Some(w) = self.finish_waker.borrow_mut().take() {
            w.wake();
        }
    }

    pub async fn wait_finished(&self) {
        poll_fn(|cx| {
            if self.finished.get() {
                Poll::Ready(())
            } else {
                *self.finish_waker.borrow_mut() = Some(cx.waker().clone());
                Poll::Pending
            }
        })
        .await;
    }
}

/// Emits GateDropped if the handler future is dropped before it exited.
pub struct GateGuard {
    pub w: Rc<World>,
    pub id: usize,
}

impl Drop for GateGuard {
    fn drop(&mut self) {
        let dropped = {
            let mut gs = self.w.gates.borrow_mut();
            let g = &mut gs[self.id];
            if g.exited {
                false
            } else {
                g.dropped = true;
                g.parked = false;
                g.read_waiting = false;
                true
            }
        };
        if dropped {
            self.w.ev(Ev::GateDropped { gate: self.id });
        }
    }
}

/// negative PUBACK/PUBREC reason codes an application may map an error to
/// (0x10 "no matching subscribers" is a success-class code: the exchange goes on - QoS 2 still expects
/// PUBREL - although the handler answered through its error mapping)
pub const NEG_CODES: [u8; 5] = [0x80, 0x83, 0x87, 0x97, 0x10];

pub fn digest_bytes(b: &[u8]) -> u64 {
    let mut f = Fnv::default();
    f.write(b);
    f.0
}

/// Position-coded payload: byte i of the payload with tag `tag`.
pub fn payload_byte(tag: u32, i: usize) -> u8 {
    let x = (tag as usize).wrapping_mul(2_654_435_761).wrapping_add(i.wrapping_mul(40_503)).wrapping_add(i >> 8);
    (x ^ (x >> 13)) as u8
}

pub fn make_payload(tag: u32, len: usize) -> Vec<u8> {
    (0..len).map(|i| payload_byte(tag, i)).collect()
}
